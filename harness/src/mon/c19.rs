//! C19 — coordinate traversal, mapping and bounding boxes are mutually consistent.
//!
//! Everything the oracle knows about a geometry it learns by structural recursion over the public
//! fields / accessors of the geo-types structs (`walk`, `ref_lines`, `ref_map`); it never calls
//! `CoordsIter`, `LinesIter`, `MapCoords*`, `BoundingRect` or `Extremes` to form an expectation.
//! All comparisons are on bit patterns (`Sc::bits`).
//!
//! Reference details fixed by reading the docs / code (see REPORT.md):
//!  * `Polygon::new` closes every ring, so the reference is taken from the *built* geo value, never
//!    from the lattice description.
//!  * Rect: docs promise "CCW order", no start corner -> compared up to rotation of the cycle
//!    (min.x,min.y) (max.x,min.y) (max.x,max.y) (min.x,max.y).
//!  * Triangle: stored order. `map_coords` rebuilds through `Triangle::new`, which is documented to
//!    normalise to CCW: expected image is (f0,f1,f2), reversed iff the exact orientation is clockwise.
//!  * `map_coords` docs promise no call order: the stamping closure judges call count and the multiset
//!    of arguments only (call order is recorded as a class).
//!  * `try_map_coords_in_place` docs: "immediately returns" on the first `Err`, state afterwards
//!    unspecified ("potentially partially mapped") -> error value and call count judged, state observed.
//!  * `Polygon`/`MultiPolygon::bounding_rect` and `extremes` look at exterior rings only: verdicts only
//!    when every interior coordinate lies inside its shell's envelope; otherwise observe-only.
use crate::gen::gen_any;
use crate::ig::*;
use crate::report::*;
use crate::rng::{Fnv, Rng};
use crate::{with_geom, with_geom_in};
use geo::algorithm::extremes::{Extreme, Extremes};
use geo::{BoundingRect, Coord, CoordNum, CoordsIter, Geometry, GeometryCollection, Line, LineString, LinesIter, MapCoords, MapCoordsInPlace, MultiLineString, MultiPoint, MultiPolygon, Point, Polygon, Rect, Triangle};
use serde_json::{json, Value};
use std::cell::{Cell, RefCell};
use std::collections::{BTreeMap, HashMap};

// ------------------------------------------------------------------------------------------------
// scalar instantiations
// ------------------------------------------------------------------------------------------------
pub trait Sc: CoordNum + 'static {
    const NAME: &'static str;
    fn bits(self) -> u64;
    fn from_i64(v: i64) -> Self;
    /// exact integer value of `self / unit` (None when not an integer: oracle inconclusive)
    fn to_int(self, unit: Self) -> Option<i128>;
}
impl Sc for f64 {
    const NAME: &'static str = "f64";
    fn bits(self) -> u64 {
        self.to_bits()
    }
    fn from_i64(v: i64) -> f64 {
        v as f64
    }
    fn to_int(self, unit: f64) -> Option<i128> {
        let q = self / unit; // unit is a power of two: exact
        if q.is_finite() && q.fract() == 0.0 && q.abs() < 9.0e18 && q * unit == self {
            Some(q as i128)
        } else {
            None
        }
    }
}
impl Sc for f32 {
    const NAME: &'static str = "f32";
    fn bits(self) -> u64 {
        self.to_bits() as u64
    }
    fn from_i64(v: i64) -> f32 {
        v as f32
    }
    fn to_int(self, unit: f32) -> Option<i128> {
        let q = self / unit;
        if q.is_finite() && q.fract() == 0.0 && q.abs() < 1.0e18 && q * unit == self {
            Some(q as i128)
        } else {
            None
        }
    }
}
impl Sc for i64 {
    const NAME: &'static str = "i64";
    fn bits(self) -> u64 {
        self as u64
    }
    fn from_i64(v: i64) -> i64 {
        v
    }
    fn to_int(self, _unit: i64) -> Option<i128> {
        Some(self as i128)
    }
}
impl Sc for i32 {
    const NAME: &'static str = "i32";
    fn bits(self) -> u64 {
        self as i64 as u64
    }
    fn from_i64(v: i64) -> i32 {
        v as i32
    }
    fn to_int(self, _unit: i32) -> Option<i128> {
        Some(self as i128)
    }
}

/// how lattice points become coordinates of scalar type T; `unit` is the lattice step
pub struct Sx<T: Sc> {
    pub unit: T,
    pub mk: Box<dyn Fn(IP) -> Coord<T>>,
}
fn sx_f64(lat: &Lat) -> Sx<f64> {
    let l = *lat;
    Sx { unit: l.scale(), mk: Box::new(move |p| l.c(p)) }
}
fn sx_f32(lat: &Lat) -> Sx<f32> {
    // |ox + i| <= 1000 + 2100 < 2^12; the images 2v+1 and the stamps k^2 (k < 600) stay below 2^24: exact in f32
    let (ox, oy, sh) = (lat.ox.clamp(-1000, 1000), lat.oy.clamp(-1000, 1000), lat.sh.clamp(-20, 20));
    let s = 2f32.powi(sh);
    Sx { unit: s, mk: Box::new(move |p| Coord { x: (ox + p.0) as f32 * s, y: (oy + p.1) as f32 * s }) }
}
fn sx_i64(lat: &Lat) -> Sx<i64> {
    let (ox, oy) = (lat.ox, lat.oy);
    Sx { unit: 1, mk: Box::new(move |p| Coord { x: ox + p.0, y: oy + p.1 }) }
}
fn sx_i32(lat: &Lat) -> Sx<i32> {
    // small offsets only: Triangle::new multiplies coordinate differences in T
    let (ox, oy) = (lat.ox.clamp(-1000, 1000), lat.oy.clamp(-1000, 1000));
    Sx { unit: 1, mk: Box::new(move |p| Coord { x: (ox + p.0) as i32, y: (oy + p.1) as i32 }) }
}

/// lattice description -> geo value of scalar type T (`raw_tri`: tuple constructor instead of `Triangle::new`)
pub fn build<T: Sc>(ig: &IG, mk: &dyn Fn(IP) -> Coord<T>, raw_tri: bool) -> Geometry<T> {
    let ls = |v: &Vec<IP>| LineString::new(v.iter().map(|&p| mk(p)).collect());
    let poly = |rings: &Vec<Vec<IP>>| {
        if rings.is_empty() {
            Polygon::new(LineString::new(vec![]), vec![])
        } else {
            Polygon::new(ls(&rings[0]), rings[1..].iter().map(|r| ls(r)).collect())
        }
    };
    match ig {
        IG::Point(p) => Geometry::Point(Point(mk(*p))),
        IG::Line(a, b) => Geometry::Line(Line::new(mk(*a), mk(*b))),
        IG::LineString(v) => Geometry::LineString(ls(v)),
        IG::Polygon(r) => Geometry::Polygon(poly(r)),
        IG::MultiPoint(v) => Geometry::MultiPoint(MultiPoint::new(v.iter().map(|&p| Point(mk(p))).collect())),
        IG::MultiLineString(v) => Geometry::MultiLineString(MultiLineString::new(v.iter().map(|x| ls(x)).collect())),
        IG::MultiPolygon(v) => Geometry::MultiPolygon(MultiPolygon::new(v.iter().map(|x| poly(x)).collect())),
        IG::Rect(a, b) => Geometry::Rect(Rect::new(mk(*a), mk(*b))),
        IG::Triangle(a, b, c) => Geometry::Triangle(if raw_tri { Triangle(mk(*a), mk(*b), mk(*c)) } else { Triangle::new(mk(*a), mk(*b), mk(*c)) }),
        IG::Collection(v) => Geometry::GeometryCollection(GeometryCollection::new_from(v.iter().map(|g| build(g, mk, raw_tri)).collect())),
    }
}

// ------------------------------------------------------------------------------------------------
// reference traversal (structural recursion over the enum, public fields only)
// ------------------------------------------------------------------------------------------------
pub struct Tr<T: Sc> {
    /// full traversal (Rect: canonical ccw cycle starting at (min.x,min.y))
    pub c: Vec<Coord<T>>,
    /// offsets in `c` of the 4-blocks that belong to a Rect (free rotation)
    pub rects: Vec<usize>,
    /// exterior traversal and its Rect blocks
    pub xc: Vec<Coord<T>>,
    pub xrects: Vec<usize>,
    /// the coordinates a mapping function is documented to be applied to (Rect: min and max only)
    pub args: Vec<Coord<T>>,
    /// offsets in `args` at which a new component (ring, member, ...) starts
    pub starts: Vec<usize>,
    pub shape: String,
    /// every interior-ring coordinate lies inside its shell's envelope
    pub domain_ok: bool,
    pub has_rect: bool,
    pub has_tri: bool,
    pub max_holes: usize,
    pub depth: usize,
    pub empty_members: usize,
}
impl<T: Sc> Tr<T> {
    fn new() -> Tr<T> {
        Tr { c: vec![], rects: vec![], xc: vec![], xrects: vec![], args: vec![], starts: vec![], shape: String::new(), domain_ok: true, has_rect: false, has_tri: false, max_holes: 0, depth: 0, empty_members: 0 }
    }
    fn push(&mut self, c: Coord<T>, ext: bool) {
        self.c.push(c);
        self.args.push(c);
        if ext {
            self.xc.push(c);
        }
    }
    fn seq(&mut self, v: &[Coord<T>], ext: bool) {
        self.starts.push(self.args.len());
        if v.is_empty() {
            self.empty_members += 1;
        }
        for &c in v {
            self.push(c, ext);
        }
    }
}
pub fn rect_cycle<T: Sc>(r: &Rect<T>) -> [Coord<T>; 4] {
    let (a, b) = (r.min(), r.max());
    [Coord { x: a.x, y: a.y }, Coord { x: b.x, y: a.y }, Coord { x: b.x, y: b.y }, Coord { x: a.x, y: b.y }]
}
fn walk_poly<T: Sc>(p: &Polygon<T>, t: &mut Tr<T>) {
    let e = &p.exterior().0;
    let env = bounds(e);
    t.seq(e, true);
    t.shape.push_str(&format!("PG({}", e.len()));
    t.max_holes = t.max_holes.max(p.interiors().len());
    for (i, h) in p.interiors().iter().enumerate() {
        for c in &h.0 {
            let inside = match env {
                None => false,
                Some((x0, y0, x1, y1)) => !(c.x < x0) && !(c.x > x1) && !(c.y < y0) && !(c.y > y1),
            };
            if !inside {
                t.domain_ok = false;
            }
        }
        t.seq(&h.0, false);
        t.shape.push_str(&format!("{}{}", if i == 0 { ";" } else { "," }, h.0.len()));
    }
    t.shape.push(')');
}
pub fn walk_into<T: Sc>(g: &Geometry<T>, t: &mut Tr<T>, depth: usize) {
    t.depth = t.depth.max(depth);
    match g {
        Geometry::Point(p) => {
            t.seq(&[p.0], true);
            t.shape.push('P');
        }
        Geometry::Line(l) => {
            t.seq(&[l.start, l.end], true);
            t.shape.push('L');
        }
        Geometry::LineString(ls) => {
            t.seq(&ls.0, true);
            t.shape.push_str(&format!("LS{}", ls.0.len()));
        }
        Geometry::Polygon(p) => walk_poly(p, t),
        Geometry::MultiPoint(mp) => {
            let v: Vec<Coord<T>> = mp.0.iter().map(|p| p.0).collect();
            t.seq(&v, true);
            t.shape.push_str(&format!("MP{}", v.len()));
        }
        Geometry::MultiLineString(m) => {
            t.shape.push_str("MLS[");
            if m.0.is_empty() {
                t.empty_members += 1;
            }
            for (i, ls) in m.0.iter().enumerate() {
                t.seq(&ls.0, true);
                t.shape.push_str(&format!("{}{}", if i == 0 { "" } else { "," }, ls.0.len()));
            }
            t.shape.push(']');
        }
        Geometry::MultiPolygon(m) => {
            t.shape.push_str("MPG[");
            if m.0.is_empty() {
                t.empty_members += 1;
            }
            for p in &m.0 {
                walk_poly(p, t);
            }
            t.shape.push(']');
        }
        Geometry::GeometryCollection(gc) => {
            t.shape.push_str("GC[");
            if gc.0.is_empty() {
                t.empty_members += 1;
            }
            for (i, m) in gc.0.iter().enumerate() {
                if i > 0 {
                    t.shape.push(',');
                }
                walk_into(m, t, depth + 1);
            }
            t.shape.push(']');
        }
        Geometry::Rect(r) => {
            t.has_rect = true;
            t.rects.push(t.c.len());
            t.xrects.push(t.xc.len());
            t.starts.push(t.args.len());
            for c in rect_cycle(r) {
                t.c.push(c);
                t.xc.push(c);
            }
            t.args.push(r.min());
            t.args.push(r.max());
            t.shape.push('R');
        }
        Geometry::Triangle(tr) => {
            t.has_tri = true;
            t.seq(&[tr.0, tr.1, tr.2], true);
            t.shape.push('T');
        }
    }
}
pub fn walk<T: Sc>(g: &Geometry<T>) -> Tr<T> {
    let mut t = Tr::new();
    walk_into(g, &mut t, 0);
    t
}
/// (xmin, ymin, xmax, ymax) by plain comparisons
pub fn bounds<T: Sc>(v: &[Coord<T>]) -> Option<(T, T, T, T)> {
    let f = v.first()?;
    let mut b = (f.x, f.y, f.x, f.y);
    for c in &v[1..] {
        if c.x < b.0 {
            b.0 = c.x
        }
        if c.y < b.1 {
            b.1 = c.y
        }
        if c.x > b.2 {
            b.2 = c.x
        }
        if c.y > b.3 {
            b.3 = c.y
        }
    }
    Some(b)
}
#[inline]
fn ceq<T: Sc>(a: Coord<T>, b: Coord<T>) -> bool {
    a.x.bits() == b.x.bits() && a.y.bits() == b.y.bits()
}
fn seq_eq<T: Sc>(a: &[Coord<T>], b: &[Coord<T>]) -> bool {
    a.len() == b.len() && a.iter().zip(b).all(|(x, y)| ceq(*x, *y))
}
/// `obs` must equal `exp` bit for bit, except that every Rect block may be any rotation of its cycle.
/// Returns the reference with the observed rotations substituted.
fn match_seq<T: Sc>(obs: &[Coord<T>], exp: &[Coord<T>], rects: &[usize]) -> Result<Vec<Coord<T>>, String> {
    if obs.len() != exp.len() {
        return Err(format!("length {} instead of {}", obs.len(), exp.len()));
    }
    let mut res = exp.to_vec();
    for &o in rects {
        let cyc = &exp[o..o + 4];
        let got = &obs[o..o + 4];
        let rot = (0..4).find(|&r| (0..4).all(|i| ceq(got[i], cyc[(r + i) % 4])));
        match rot {
            Some(r) => {
                for i in 0..4 {
                    res[o + i] = cyc[(r + i) % 4];
                }
            }
            None => return Err(format!("Rect block at {o} is not a rotation of the ccw corner cycle")),
        }
    }
    match (0..res.len()).find(|&i| !ceq(res[i], obs[i])) {
        None => Ok(res),
        Some(i) => Err(format!("first difference at position {i}")),
    }
}
fn trunc(mut s: String) -> String {
    if s.len() > 900 {
        s.truncate(900);
        s.push_str("...");
    }
    s
}
fn fmt_c<T: Sc>(v: &[Coord<T>]) -> String {
    trunc(format!("n={} [{}]", v.len(), v.iter().take(60).map(|c| format!("({:?},{:?})", c.x, c.y)).collect::<Vec<_>>().join(" ")))
}
fn fmt_l<T: Sc>(v: &[(Coord<T>, Coord<T>)]) -> String {
    trunc(format!("n={} [{}]", v.len(), v.iter().take(40).map(|(a, b)| format!("({:?},{:?})-({:?},{:?})", a.x, a.y, b.x, b.y)).collect::<Vec<_>>().join(" ")))
}

/// consecutive pairs of each linear component, for the types that implement `LinesIter`;
/// `.1` = the sequence is a Rect's cycle (free rotation)
pub fn ref_lines<T: Sc>(g: &Geometry<T>) -> Option<(Vec<(Coord<T>, Coord<T>)>, bool)> {
    fn win<T: Sc>(v: &[Coord<T>], out: &mut Vec<(Coord<T>, Coord<T>)>) {
        for i in 1..v.len() {
            out.push((v[i - 1], v[i]));
        }
    }
    fn poly<T: Sc>(p: &Polygon<T>, out: &mut Vec<(Coord<T>, Coord<T>)>) {
        win(&p.exterior().0, out);
        for h in p.interiors() {
            win(&h.0, out);
        }
    }
    let mut out = vec![];
    let mut cyc = false;
    match g {
        Geometry::Line(l) => out.push((l.start, l.end)),
        Geometry::LineString(ls) => win(&ls.0, &mut out),
        Geometry::MultiLineString(m) => m.0.iter().for_each(|ls| win(&ls.0, &mut out)),
        Geometry::Polygon(p) => poly(p, &mut out),
        Geometry::MultiPolygon(m) => m.0.iter().for_each(|p| poly(p, &mut out)),
        Geometry::Rect(r) => {
            let c = rect_cycle(r);
            for i in 0..4 {
                out.push((c[i], c[(i + 1) % 4]));
            }
            cyc = true;
        }
        Geometry::Triangle(t) => {
            out.push((t.0, t.1));
            out.push((t.1, t.2));
            out.push((t.2, t.0));
        }
        _ => return None,
    }
    Some((out, cyc))
}

/// exact orientation sign of (a,b,c); coordinates are integer multiples of `unit`
fn orient_exact<T: Sc>(a: Coord<T>, b: Coord<T>, c: Coord<T>, unit: T) -> Option<i128> {
    let (ax, ay, bx, by, cx, cy) = (a.x.to_int(unit)?, a.y.to_int(unit)?, b.x.to_int(unit)?, b.y.to_int(unit)?, c.x.to_int(unit)?, c.y.to_int(unit)?);
    Some(((bx - ax).checked_mul(cy - ay)?).checked_sub((by - ay).checked_mul(cx - ax)?)?)
}

/// the geometry `map_coords(f)` is documented to return, by structural recursion
pub fn ref_map<T: Sc, NT: Sc>(g: &Geometry<T>, f: &dyn Fn(Coord<T>) -> Coord<NT>, un: NT) -> Option<Geometry<NT>> {
    let ml = |ls: &LineString<T>| LineString::new(ls.0.iter().map(|&c| f(c)).collect());
    let mp = |p: &Polygon<T>| Polygon::new(ml(p.exterior()), p.interiors().iter().map(|h| ml(h)).collect());
    Some(match g {
        Geometry::Point(p) => Geometry::Point(Point(f(p.0))),
        Geometry::Line(l) => Geometry::Line(Line::new(f(l.start), f(l.end))),
        Geometry::LineString(ls) => Geometry::LineString(ml(ls)),
        Geometry::Polygon(p) => Geometry::Polygon(mp(p)),
        Geometry::MultiPoint(m) => Geometry::MultiPoint(MultiPoint::new(m.0.iter().map(|p| Point(f(p.0))).collect())),
        Geometry::MultiLineString(m) => Geometry::MultiLineString(MultiLineString::new(m.0.iter().map(|l| ml(l)).collect())),
        Geometry::MultiPolygon(m) => Geometry::MultiPolygon(MultiPolygon::new(m.0.iter().map(|p| mp(p)).collect())),
        Geometry::GeometryCollection(gc) => {
            let mut v = vec![];
            for m in &gc.0 {
                v.push(ref_map(m, f, un)?);
            }
            Geometry::GeometryCollection(GeometryCollection::new_from(v))
        }
        Geometry::Rect(r) => {
            // min / max of the four mapped corners
            let m: Vec<Coord<NT>> = rect_cycle(r).iter().map(|&c| f(c)).collect();
            let (x0, y0, x1, y1) = bounds(&m)?;
            Geometry::Rect(Rect::new(Coord { x: x0, y: y0 }, Coord { x: x1, y: y1 }))
        }
        Geometry::Triangle(t) => {
            let (a, b, c) = (f(t.0), f(t.1), f(t.2));
            // Triangle::new (documented): result is ccw irrespective of input order
            if orient_exact(a, b, c, un)? < 0 {
                Geometry::Triangle(Triangle(c, b, a))
            } else {
                Geometry::Triangle(Triangle(a, b, c))
            }
        }
    })
}

/// any of the ten geometry types or the enum, as the enum (GeometryCollection has no `From` impl)
pub trait ToG<T: Sc> {
    fn to_g(self) -> Geometry<T>;
}
impl<T: Sc> ToG<T> for Geometry<T> {
    fn to_g(self) -> Geometry<T> {
        self
    }
}
macro_rules! to_g {
    ($($v:ident),*) => { $(impl<T: Sc> ToG<T> for $v<T> { fn to_g(self) -> Geometry<T> { Geometry::$v(self) } })* };
}
to_g!(Point, Line, LineString, Polygon, MultiPoint, MultiLineString, MultiPolygon, GeometryCollection, Rect, Triangle);

/// `try_map_coords_in_place` behind a trait of the harness, because on the pinned tree the impls for
/// `Geometry` and `GeometryCollection` cannot be instantiated at all (GENUINE DEFECT, see REPORT.md:
/// `GeometryCollection::try_map_coords_in_place` hands `&func` to `Geometry::try_map_coords_in_place`,
/// which hands it back to the collection impl: F, &F, &&F, ... — rustc stops with "reached the recursion
/// limit while instantiating"). `None` = this entry point does not compile. Build the harness with
/// `--cfg georust_geo_c19_enum_try_in_place` once the tree is fixed; the two impls are then monitored
/// like every other type and the fixed signature below stops firing.
pub trait Tip<T: Sc> {
    fn tip<E>(&mut self, f: &dyn Fn(Coord<T>) -> Result<Coord<T>, E>) -> Option<Result<(), E>>;
}
macro_rules! tip {
    ($($v:ident),*) => { $(impl<T: Sc> Tip<T> for $v<T> {
        fn tip<E>(&mut self, f: &dyn Fn(Coord<T>) -> Result<Coord<T>, E>) -> Option<Result<(), E>> { Some(self.try_map_coords_in_place(f)) }
    })* };
}
tip!(Point, Line, LineString, Polygon, MultiPoint, MultiLineString, MultiPolygon, Rect, Triangle);
#[cfg(all())]
tip!(Geometry, GeometryCollection);
#[cfg(all())]
pub const ENUM_TRY_IN_PLACE_COMPILES: bool = true;
#[cfg(any())]
pub const ENUM_TRY_IN_PLACE_COMPILES: bool = false;
#[cfg(any())]
impl<T: Sc> Tip<T> for Geometry<T> {
    fn tip<E>(&mut self, _f: &dyn Fn(Coord<T>) -> Result<Coord<T>, E>) -> Option<Result<(), E>> {
        None
    }
}
#[cfg(any())]
impl<T: Sc> Tip<T> for GeometryCollection<T> {
    fn tip<E>(&mut self, _f: &dyn Fn(Coord<T>) -> Result<Coord<T>, E>) -> Option<Result<(), E>> {
        None
    }
}

// the mapping functions: exact on the lattice (x = m·unit  ->  (2m+1)·unit), injective
fn f_aff<T: Sc>(c: Coord<T>, u: T) -> Coord<T> {
    let two = T::from_i64(2);
    let three = T::from_i64(3);
    Coord { x: c.x * two + u, y: c.y * two - three * u }
}
/// orientation reversing (Rect / Triangle re-normalise)
fn f_mir<T: Sc>(c: Coord<T>, u: T) -> Coord<T> {
    let two = T::from_i64(2);
    let three = T::from_i64(3);
    Coord { x: T::from_i64(0) - c.x * two + u, y: c.y * two - three * u }
}
/// position stamp: k -> (k, k²)·unit (all distinct)
fn stamp_of<T: Sc>(k: usize, u: T) -> Coord<T> {
    let k = k as i64;
    Coord { x: T::from_i64(k) * u, y: T::from_i64(k * k) * u }
}

// ------------------------------------------------------------------------------------------------
// judging
// ------------------------------------------------------------------------------------------------
pub struct Ck<'a> {
    pub sh: &'a mut Shard,
    pub counts: &'a mut HashMap<(&'static str, &'static str), u64>,
    pub ig: &'a IG,
    pub lat: &'a Lat,
    pub raw_tri: bool,
    pub verbose: bool,
    pub scalar: &'static str,
}
impl<'a> Ck<'a> {
    fn detail(&self, check: &str, site: &str, expected: String, got: String) -> Value {
        json!({"property": "C19", "check": check, "site": site, "scalar": self.scalar, "expected": expected, "got": got,
               "ig": self.ig.json(), "lat": self.lat.json(), "raw_tri": self.raw_tri, "geo": trunc(format!("{:?}", self.ig.to_geo(self.lat)))})
    }
    fn judge(&mut self, check: &'static str, site: &'static str, pass: bool, why: impl FnOnce() -> (String, String)) {
        self.sh.eval(1);
        *self.counts.entry((check, site)).or_insert(0) += 1;
        if pass {
            if self.verbose {
                println!("  ok    {:<28} {}<{}>", check, site, self.scalar);
            }
        } else {
            let sig = format!("{check}|{site}<{}>|-", self.scalar);
            // only the first 3 per signature are kept by the shard: do not format the rest
            if self.sh.viol_sigs.get(&sig).map_or(true, |&n| n < 3) || self.verbose {
                let (e, g) = why();
                if self.verbose {
                    println!("  FAIL  {:<28} {}<{}>\n        expected {}\n        got      {}", check, site, self.scalar, e, g);
                }
                let d = self.detail(check, site, e, g);
                self.sh.violation(&sig, d);
            } else {
                self.sh.violation(&sig, Value::Null);
            }
        }
    }
    fn panicked(&mut self, check: &'static str, site: &'static str, msg: String) {
        self.sh.eval(1);
        if self.verbose {
            println!("  PANIC {:<28} {}<{}>: {} at {}", check, site, self.scalar, msg, last_panic_loc());
        }
        let mut d = self.detail(check, site, "no panic".into(), msg);
        d["at"] = json!(last_panic_loc());
        d["check"] = json!(format!("{check}.panic"));
        self.sh.violation(&format!("{check}.panic|{site}<{}>|-", self.scalar), d);
    }
    fn observe(&mut self, what: &'static str, site: &'static str) {
        *self.counts.entry((what, site)).or_insert(0) += 1;
    }
}
macro_rules! gcall {
    ($ck:expr, $check:expr, $site:expr, $e:expr) => {
        match call(|| $e) {
            Ok(v) => Some(v),
            Err(p) => {
                $ck.panicked($check, $site, p);
                None
            }
        }
    };
}

/// drain an iterator; at every step `size_hint` must bracket the number of items still to come
fn drain_checked<I: Iterator>(mut it: I) -> (Vec<I::Item>, Option<String>) {
    let mut v = vec![];
    let mut hints = vec![];
    loop {
        hints.push(it.size_hint());
        match it.next() {
            Some(x) => v.push(x),
            None => break,
        }
    }
    let mut bad = None;
    for (j, (lo, hi)) in hints.iter().enumerate() {
        let rem = v.len() - j;
        if *lo > rem || hi.map_or(false, |h| h < rem) {
            bad = Some(format!("after {j} items size_hint=({lo},{hi:?}) but {rem} items remain"));
            break;
        }
    }
    (v, bad)
}

fn fmt_ext<T: Sc>(e: &Extreme<T>) -> String {
    format!("#{}:({:?},{:?})", e.index, e.coord.x, e.coord.y)
}

/// count / iter / exterior / extremes for anything that implements `CoordsIter`
fn check_coords<T: Sc, G: CoordsIter<Scalar = T>>(ck: &mut Ck, site: &'static str, g: &G, full: &[Coord<T>], rects: &[usize], ext: &[Coord<T>], xrects: &[usize], domain_ok: bool) {
    // ---- coords_count / coords_iter
    let cnt = gcall!(ck, "count", site, g.coords_count());
    let cnt2 = gcall!(ck, "iter", site, g.coords_iter().count());
    let drained = gcall!(ck, "iter", site, drain_checked(g.coords_iter()));
    if let (Some(c), Some(c2)) = (cnt, cnt2) {
        ck.judge("count.eq_iter_count", site, c == c2, || (format!("coords_iter().count() = {c2}"), format!("coords_count() = {c}")));
    }
    if let Some(c) = cnt {
        ck.judge("count.eq_reference", site, c == full.len(), || (format!("{}", full.len()), format!("{c}")));
    }
    if let Some((obs, hint)) = drained {
        ck.judge("count.size_hint", site, hint.is_none(), || ("lower <= remaining <= upper at every step".into(), hint.clone().unwrap_or_default()));
        let m = match_seq(&obs, full, rects);
        ck.judge("iter.traversal", site, m.is_ok(), || (fmt_c(full), format!("{} ; {}", m.clone().err().unwrap_or_default(), fmt_c(&obs))));
    }
    // ---- exterior_coords_iter
    let xdr = gcall!(ck, "iter.exterior", site, drain_checked(g.exterior_coords_iter()));
    let mut xres: Option<Vec<Coord<T>>> = None;
    if let Some((obs, hint)) = xdr {
        ck.judge("count.size_hint_exterior", site, hint.is_none(), || ("lower <= remaining <= upper at every step".into(), hint.clone().unwrap_or_default()));
        let m = match_seq(&obs, ext, xrects);
        ck.judge("iter.exterior", site, m.is_ok(), || (fmt_c(ext), format!("{} ; {}", m.clone().err().unwrap_or_default(), fmt_c(&obs))));
        xres = m.ok();
    }
    // ---- extremes (defined on exterior_coords_iter: extremes.rs enumerates it)
    let ex = gcall!(ck, "extremes", site, g.extremes());
    if let Some(ex) = ex {
        if !domain_ok {
            // a hole reaches outside its shell's envelope: exterior bounds are not the traversal's bounds
            ck.observe("observe:extremes.hole_outside_shell_envelope", site);
        } else {
            let b = bounds(full);
            ck.judge("extremes.none_iff_empty", site, ex.is_some() == b.is_some(), || (format!("is_some = {}", b.is_some()), format!("is_some = {}", ex.is_some())));
            if let (Some(o), Some((x0, y0, x1, y1))) = (&ex, b) {
                let okc = o.x_min.coord.x.bits() == x0.bits() && o.y_min.coord.y.bits() == y0.bits() && o.x_max.coord.x.bits() == x1.bits() && o.y_max.coord.y.bits() == y1.bits();
                ck.judge("extremes.attains_bounds", site, okc, || {
                    (format!("x_min={x0:?} y_min={y0:?} x_max={x1:?} y_max={y1:?}"), format!("x_min {} y_min {} x_max {} y_max {}", fmt_ext(&o.x_min), fmt_ext(&o.y_min), fmt_ext(&o.x_max), fmt_ext(&o.y_max)))
                });
                if let Some(xr) = &xres {
                    let at = |e: &Extreme<T>| e.index < xr.len() && ceq(xr[e.index], e.coord);
                    let oki = at(&o.x_min) && at(&o.y_min) && at(&o.x_max) && at(&o.y_max);
                    ck.judge("extremes.index", site, oki, || {
                        (format!("each index names its coord in the exterior traversal {}", fmt_c(xr)), format!("x_min {} y_min {} x_max {} y_max {}", fmt_ext(&o.x_min), fmt_ext(&o.y_min), fmt_ext(&o.x_max), fmt_ext(&o.y_max)))
                    });
                }
            }
        }
    }
}

fn check_bbox<T: Sc, G: BoundingRect<T>>(ck: &mut Ck, site: &'static str, g: &G, tr: &Tr<T>) {
    let got: Option<Option<Rect<T>>> = gcall!(ck, "bbox", site, g.bounding_rect().into());
    let Some(got) = got else { return };
    if !tr.domain_ok {
        ck.observe("observe:bbox.hole_outside_shell_envelope", site);
        return;
    }
    let b = bounds(&tr.c);
    ck.judge("bbox.none_iff_empty", site, got.is_some() == b.is_some(), || (format!("is_some = {}", b.is_some()), format!("{:?}", got)));
    if let (Some(r), Some((x0, y0, x1, y1))) = (got, b) {
        let ok = r.min().x.bits() == x0.bits() && r.min().y.bits() == y0.bits() && r.max().x.bits() == x1.bits() && r.max().y.bits() == y1.bits();
        ck.judge("bbox.minmax", site, ok, || (format!("min ({x0:?},{y0:?}) max ({x1:?},{y1:?})"), format!("min ({:?},{:?}) max ({:?},{:?})", r.min().x, r.min().y, r.max().x, r.max().y)));
    }
}

/// positions at which the fallible function is made to fail
fn fail_positions(n: usize, starts: &[usize]) -> Vec<usize> {
    if n <= 32 {
        return (0..n).collect();
    }
    let mut v: Vec<usize> = vec![0, 1, 2, n - 3, n - 2, n - 1];
    for j in 1..12 {
        v.push(j * n / 12);
    }
    for &s in starts.iter().take(14) {
        if s < n {
            v.push(s);
        }
        if s >= 1 && s - 1 < n {
            v.push(s - 1);
        }
    }
    v.sort_unstable();
    v.dedup();
    v
}

fn check_map<T: Sc, G>(ck: &mut Ck, site: &'static str, g: &G, tr: &Tr<T>, u: T)
where
    G: Clone + ToG<T> + Tip<T> + MapCoords<T, T, Output = G> + MapCoordsInPlace<T>,
{
    let gg: Geometry<T> = g.clone().to_g();
    let funcs: [(&'static str, fn(Coord<T>, T) -> Coord<T>); 2] = [("affine", f_aff::<T>), ("mirror", f_mir::<T>)];
    for (fname, f) in funcs {
        let fc = move |c: Coord<T>| f(c, u);
        let Some(exp_geom) = ref_map(&gg, &fc, u) else {
            ck.sh.inconclusive("map: exact orientation of a mapped triangle not computable");
            continue;
        };
        let et = walk(&exp_geom);
        let mirror = fname == "mirror";
        let mut cmp = |ck: &mut Ck, check: &'static str, out: G| {
            let ot = walk(&out.to_g());
            let ok = seq_eq(&ot.c, &et.c);
            ck.judge(check, site, ok && ot.shape == et.shape, || (format!("f={fname} shape {} traversal {}", et.shape, fmt_c(&et.c)), format!("shape {} traversal {}", ot.shape, fmt_c(&ot.c))));
        };
        // map_coords
        if let Some(out) = gcall!(ck, "map", site, g.map_coords(fc)) {
            cmp(ck, if mirror { "map.traversal_mirror" } else { "map.traversal" }, out);
        }
        // map_coords_in_place
        let mut h = g.clone();
        if gcall!(ck, "map.in_place", site, h.map_coords_in_place(fc)).is_some() {
            cmp(ck, if mirror { "map.in_place_mirror" } else { "map.in_place" }, h);
        }
        // try_map_coords with an infallible function
        if let Some(res) = gcall!(ck, "map.try_ok", site, g.try_map_coords(move |c| Ok::<Coord<T>, usize>(fc(c)))) {
            match res {
                Ok(out) => cmp(ck, if mirror { "map.try_ok_mirror" } else { "map.try_ok" }, out),
                Err(e) => ck.judge("map.try_ok", site, false, || ("Ok(..)".into(), format!("Err({e})"))),
            }
        }
        let mut h = g.clone();
        if let Some(res) = gcall!(ck, "map.try_in_place_ok", site, h.tip(&move |c| Ok::<Coord<T>, usize>(fc(c)))) {
            match res {
                Some(Ok(())) => cmp(ck, if mirror { "map.try_in_place_ok_mirror" } else { "map.try_in_place_ok" }, h),
                Some(Err(e)) => ck.judge("map.try_in_place_ok", site, false, || ("Ok(())".into(), format!("Err({e})"))),
                None => ck.observe("observe:try_map_coords_in_place.cannot_be_instantiated", site),
            }
        }
    }
    // ---- position-stamping closure: every coordinate visited exactly once
    let n = tr.args.len();
    let mut want: Vec<(u64, u64)> = tr.args.iter().map(|c| (c.x.bits(), c.y.bits())).collect();
    want.sort_unstable();
    for inplace in [false, true] {
        let log: RefCell<Vec<Coord<T>>> = RefCell::new(Vec::with_capacity(n));
        let stamp = |c: Coord<T>| {
            let mut l = log.borrow_mut();
            let k = l.len();
            l.push(c);
            stamp_of::<T>(k, u)
        };
        let out: Option<G> = if inplace {
            let mut h = g.clone();
            gcall!(ck, "map.visit", site, h.map_coords_in_place(&stamp)).map(|_| h)
        } else {
            gcall!(ck, "map.visit", site, g.map_coords(&stamp))
        };
        let Some(out) = out else { continue };
        let args = log.borrow().clone();
        ck.judge(if inplace { "map.in_place_visit_count" } else { "map.visit_count" }, site, args.len() == n, || (format!("{n} calls"), format!("{} calls", args.len())));
        let mut gotm: Vec<(u64, u64)> = args.iter().map(|c| (c.x.bits(), c.y.bits())).collect();
        gotm.sort_unstable();
        ck.judge(if inplace { "map.in_place_visit_multiset" } else { "map.visit_multiset" }, site, gotm == want, || (fmt_c(&tr.args), fmt_c(&args)));
        ck.observe(if seq_eq(&args, &tr.args) { "observe:map.call_order=traversal" } else { "observe:map.call_order=other" }, site);
        if !tr.has_rect {
            // the result consists of exactly the stamps, each present at least once (ring closing may repeat one)
            let ot = walk(&out.to_g());
            let mut seen = vec![0usize; args.len()];
            let mut foreign = 0;
            for c in &ot.c {
                match (0..args.len()).find(|&k| ceq(stamp_of::<T>(k, u), *c)) {
                    Some(k) => seen[k] += 1,
                    None => foreign += 1,
                }
            }
            let ok = foreign == 0 && seen.iter().all(|&s| s >= 1);
            ck.judge(if inplace { "map.in_place_visit_output" } else { "map.visit_output" }, site, ok, || ("every call's result present in the output, nothing else".into(), format!("foreign={foreign} uses={:?} out {}", seen, fmt_c(&ot.c))));
        }
    }
    // ---- a function that fails on EVERY coordinate and names the coordinate it was given: both fallible forms stop at
    // the first coordinate of the traversal, so both report that one (whatever order an impl calls the function in)
    if n >= 1 {
        let pos_of = |c: Coord<T>| -> usize { (0..n).find(|&i| ceq(tr.args[i], c)).unwrap_or(usize::MAX) };
        let fe = |c: Coord<T>| -> Result<Coord<T>, usize> { Err(pos_of(c)) };
        if let Some(res) = gcall!(ck, "map.try_err_first", site, g.try_map_coords(&fe)) {
            let ok = matches!(res, Err(0));
            ck.judge("map.try_err_first", site, ok, || ("Err(0): the first coordinate of the traversal is the first to fail".into(), match &res { Ok(_) => "Ok(..)".to_string(), Err(e) => format!("Err({e})") }));
        }
        let mut h = g.clone();
        if let Some(Some(res)) = gcall!(ck, "map.try_in_place_err_first", site, h.tip(&fe)) {
            let ok = matches!(res, Err(0));
            ck.judge("map.try_in_place_err_first", site, ok, || ("Err(0): the first coordinate of the traversal is the first to fail".into(), format!("{:?}", res)));
        }
    }
    // ---- fallible function failing at position k
    let ks = fail_positions(n, &tr.starts);
    for (ki, &k) in ks.iter().enumerate() {
        let cnt = Cell::new(0usize);
        let ff = |c: Coord<T>| -> Result<Coord<T>, usize> {
            let i = cnt.get();
            cnt.set(i + 1);
            if i == k {
                Err(k)
            } else {
                Ok(f_aff(c, u))
            }
        };
        if let Some(res) = gcall!(ck, "map.try_err", site, g.try_map_coords(&ff)) {
            let ok = matches!(res, Err(e) if e == k);
            ck.judge("map.try_err", site, ok, || (format!("Err({k}) (function fails at call {k} of {n})"), match &res { Ok(_) => "Ok(..)".to_string(), Err(e) => format!("Err({e})") }));
        }
        // in place: fails at every call >= k with a distinct error; docs promise an immediate return
        let cnt2 = Cell::new(0usize);
        let fi = |c: Coord<T>| -> Result<Coord<T>, usize> {
            let i = cnt2.get();
            cnt2.set(i + 1);
            if i >= k {
                Err(i)
            } else {
                Ok(f_aff(c, u))
            }
        };
        let mut h = g.clone();
        if let Some(Some(res)) = gcall!(ck, "map.try_in_place_err", site, h.tip(&fi)) {
            let ok = matches!(res, Err(e) if e == k);
            ck.judge("map.try_in_place_err", site, ok, || (format!("Err({k}) (function fails from call {k} of {n} on)"), format!("{:?}", res)));
            ck.judge("map.try_in_place_immediate", site, cnt2.get() == k + 1, || (format!("{} calls", k + 1), format!("{} calls", cnt2.get())));
            if ki == 0 || ki + 1 == ks.len() {
                // state left behind: unspecified by the docs; recorded only
                let ht = walk(&h.to_g());
                let pre = ht.args.len() == n && (0..n).all(|i| ceq(ht.args[i], if i < k { f_aff(tr.args[i], u) } else { tr.args[i] }));
                ck.observe(if pre { "observe:try_in_place.state=prefix_mapped" } else { "observe:try_in_place.state=other(renormalised/closed)" }, site);
            }
        }
    }
}

fn check_all<T: Sc, G>(ck: &mut Ck, site: &'static str, g: &G, tr: &Tr<T>, u: T)
where
    G: CoordsIter<Scalar = T> + BoundingRect<T> + Clone + ToG<T> + Tip<T> + MapCoords<T, T, Output = G> + MapCoordsInPlace<T>,
{
    check_coords(ck, site, g, &tr.c, &tr.rects, &tr.xc, &tr.xrects, tr.domain_ok);
    check_bbox(ck, site, g, tr);
    check_map(ck, site, g, tr, u);
}

fn check_lines<T: Sc>(ck: &mut Ck, site: &'static str, g: &Geometry<T>) {
    let Some((exp, cyc)) = ref_lines(g) else { return };
    let obs = with_geom_in!(g, [Line, LineString, Polygon, MultiLineString, MultiPolygon, Rect, Triangle], x => call(|| drain_checked(x.lines_iter().map(|l| (l.start, l.end)))));
    let Some(obs) = obs else { return };
    let (obs, hint) = match obs {
        Ok(o) => o,
        Err(p) => {
            ck.panicked("lines", site, p);
            return;
        }
    };
    ck.judge("lines.size_hint", site, hint.is_none(), || ("lower <= remaining <= upper at every step".into(), hint.clone().unwrap_or_default()));
    let leq = |a: &(Coord<T>, Coord<T>), b: &(Coord<T>, Coord<T>)| ceq(a.0, b.0) && ceq(a.1, b.1);
    let ok = obs.len() == exp.len()
        && if cyc {
            (0..4).any(|r| (0..4).all(|i| leq(&obs[i], &exp[(r + i) % 4])))
        } else {
            obs.iter().zip(&exp).all(|(a, b)| leq(a, b))
        };
    ck.judge("lines.pairs", site, ok, || (format!("{}{}", if cyc { "(any rotation of) " } else { "" }, fmt_l(&exp)), fmt_l(&obs)));
    // ExactSizeIterator where the iterator type provides it
    let n = exp.len();
    let len = match g {
        Geometry::Line(x) => call(|| x.lines_iter().len()).ok(),
        Geometry::Rect(x) => call(|| x.lines_iter().len()).ok(),
        Geometry::Triangle(x) => call(|| x.lines_iter().len()).ok(),
        _ => None,
    };
    if let Some(l) = len {
        ck.judge("lines.exact_len", site, l == n, || (format!("{n}"), format!("{l}")));
    }
}

fn check_exact_len<T: Sc>(ck: &mut Ck, g: &Geometry<T>) {
    match g {
        Geometry::Point(p) => {
            if let Some(l) = gcall!(ck, "count.exact_len", "Point", p.coords_iter().len()) {
                ck.judge("count.exact_len", "Point", l == 1, || ("1".into(), format!("{l}")));
            }
        }
        Geometry::LineString(ls) => {
            let n = ls.0.len();
            let r = gcall!(ck, "count.exact_len", "LineString", {
                let mut it = ls.coords_iter();
                let a = it.len();
                let took = it.next().is_some() as usize;
                let b = it.len();
                let mut xt = ls.exterior_coords_iter();
                let c = xt.len();
                xt.next();
                (a, b + took, c)
            });
            if let Some((a, b, c)) = r {
                ck.judge("count.exact_len", "LineString", a == n && b == n && c == n, || (format!("{n}"), format!("len {a}, after one next {b} (+1), exterior {c}")));
            }
        }
        _ => {}
    }
}

fn check_arrays<T: Sc>(ck: &mut Ck, tr: &Tr<T>) {
    // `&[Coord]` and `[Coord; N]` carry the traversal of the case as their own coordinates
    let v = &tr.c;
    let sl: &[Coord<T>] = &v[..];
    check_coords(ck, "&[Coord]", &sl, v, &[], v, &[], true);
    if let Some(l) = gcall!(ck, "count.exact_len", "&[Coord]", sl.coords_iter().len()) {
        ck.judge("count.exact_len", "&[Coord]", l == v.len(), || (format!("{}", v.len()), format!("{l}")));
    }
    let e: [Coord<T>; 0] = [];
    check_coords(ck, "[Coord;0]", &e, &[], &[], &[], &[], true);
    macro_rules! arr {
        ($n:expr, $site:expr) => {
            if v.len() >= $n {
                // the last N coordinates
                let mut a = [v[0]; $n];
                a.copy_from_slice(&v[v.len() - $n..]);
                check_coords(ck, $site, &a, &a[..], &[], &a[..], &[], true);
                if let Some(l) = gcall!(ck, "count.exact_len", $site, a.coords_iter().len()) {
                    ck.judge("count.exact_len", $site, l == $n, || (format!("{}", $n), format!("{l}")));
                }
            }
        };
    }
    arr!(1, "[Coord;1]");
    arr!(2, "[Coord;2]");
    arr!(3, "[Coord;3]");
    arr!(7, "[Coord;7]");
}

fn names(g: &IG) -> (&'static str, &'static str) {
    match g {
        IG::Point(_) => ("Point", "Geometry::Point"),
        IG::Line(..) => ("Line", "Geometry::Line"),
        IG::LineString(_) => ("LineString", "Geometry::LineString"),
        IG::Polygon(_) => ("Polygon", "Geometry::Polygon"),
        IG::MultiPoint(_) => ("MultiPoint", "Geometry::MultiPoint"),
        IG::MultiLineString(_) => ("MultiLineString", "Geometry::MultiLineString"),
        IG::MultiPolygon(_) => ("MultiPolygon", "Geometry::MultiPolygon"),
        IG::Rect(..) => ("Rect", "Geometry::Rect"),
        IG::Triangle(..) => ("Triangle", "Geometry::Triangle"),
        IG::Collection(_) => ("GeometryCollection", "Geometry::GeometryCollection"),
    }
}

/// all clauses for one scalar instantiation
fn run_scalar<T: Sc>(ck: &mut Ck, sx: &Sx<T>) -> Tr<T> {
    ck.scalar = T::NAME;
    let g: Geometry<T> = build(ck.ig, &*sx.mk, ck.raw_tri);
    let tr = walk(&g);
    let (cn, en) = names(ck.ig);
    if ck.verbose {
        println!("--- scalar {} : {} ; shape {} ; reference traversal {}", T::NAME, cn, tr.shape, fmt_c(&tr.c));
        println!("    exterior reference {}", fmt_c(&tr.xc));
        println!("    bounds {:?} ; holes inside shell envelopes: {}", bounds(&tr.c), tr.domain_ok);
    }
    // the enum, then the concrete type inside it
    check_all(ck, en, &g, &tr, sx.unit);
    with_geom!(&g, x => check_all(ck, cn, x, &tr, sx.unit));
    check_lines(ck, cn, &g);
    check_exact_len(ck, &g);
    check_arrays(ck, &tr);
    // Coord has a BoundingRect impl of its own
    if let Some(c) = tr.c.first() {
        if let Some(r) = gcall!(ck, "bbox", "Coord", c.bounding_rect()) {
            ck.judge("bbox.minmax", "Coord", ceq(r.min(), *c) && ceq(r.max(), *c), || (format!("({:?},{:?}) twice", c.x, c.y), format!("{:?}", r)));
        }
    }
    tr
}

/// map_coords changing the scalar type: f64 -> i64 (lattice index) and back
fn check_cross(ck: &mut Ck, lat: &Lat) {
    ck.scalar = "f64->i64";
    let sx = sx_f64(lat);
    let u = sx.unit;
    let g: Geometry<f64> = build(ck.ig, &*sx.mk, ck.raw_tri);
    let (_, en) = names(ck.ig);
    let f = move |c: Coord<f64>| Coord { x: (c.x / u) as i64, y: (c.y / u) as i64 };
    let Some(exp) = ref_map::<f64, i64>(&g, &f, 1) else {
        ck.sh.inconclusive("cross: orientation not computable");
        return;
    };
    let et = walk(&exp);
    if let Some(out) = gcall!(ck, "map.cross_type", en, g.map_coords(f)) {
        let ot = walk(&out);
        ck.judge("map.cross_type", en, seq_eq(&ot.c, &et.c) && ot.shape == et.shape, || (format!("shape {} traversal {}", et.shape, fmt_c(&et.c)), format!("shape {} traversal {}", ot.shape, fmt_c(&ot.c))));
    }
    if let Some(res) = gcall!(ck, "map.cross_type_try", en, g.try_map_coords(move |c| Ok::<Coord<i64>, String>(f(c)))) {
        match res {
            Ok(out) => {
                let ot = walk(&out);
                ck.judge("map.cross_type_try", en, seq_eq(&ot.c, &et.c) && ot.shape == et.shape, || (format!("shape {} traversal {}", et.shape, fmt_c(&et.c)), format!("shape {} traversal {}", ot.shape, fmt_c(&ot.c))));
            }
            Err(e) => ck.judge("map.cross_type_try", en, false, || ("Ok".into(), e.clone())),
        }
    }
}

/// `alt`: bit 0 f32, bit 1 i64, bit 2 i32 (f64 always)
pub fn check_case(sh: &mut Shard, counts: &mut HashMap<(&'static str, &'static str), u64>, ig: &IG, lat: &Lat, raw_tri: bool, alt: u8, verbose: bool) {
    let mut ck = Ck { sh, counts, ig, lat, raw_tri, verbose, scalar: "f64" };
    let tr = run_scalar::<f64>(&mut ck, &sx_f64(lat));
    check_cross(&mut ck, lat);
    if alt & 1 != 0 {
        run_scalar::<f32>(&mut ck, &sx_f32(lat));
    }
    if alt & 2 != 0 {
        run_scalar::<i64>(&mut ck, &sx_i64(lat));
    }
    if alt & 4 != 0 {
        run_scalar::<i32>(&mut ck, &sx_i32(lat));
    }
    // ---- evidence
    let (cn, _) = names(ig);
    let sh = ck.sh;
    sh.class(&format!("type:{cn}"));
    sh.class(&format!("coords:{}", match tr.c.len() { 0 => "0", 1 => "1", 2 => "2", 3..=8 => "3-8", 9..=32 => "9-32", 33..=100 => "33-100", _ => ">100" }));
    if let IG::Collection(_) = ig {
        sh.class(&format!("collection.depth:{}", tr.depth));
    }
    if matches!(ig, IG::Polygon(_) | IG::MultiPolygon(_)) || tr.max_holes > 0 {
        sh.class(&format!("polygon.max_holes:{}", tr.max_holes));
    }
    if let IG::LineString(v) = ig {
        sh.class(&format!("linestring.len:{}", if v.len() <= 2 { v.len().to_string() } else { "3+".into() }));
    }
    if tr.empty_members > 0 {
        sh.class("has_empty_member");
    }
    if tr.c.is_empty() {
        sh.class("no_coordinates");
    }
    if !tr.domain_ok {
        sh.class("stratum:observe(hole outside shell envelope)");
    } else {
        sh.class("stratum:verdict");
    }
    if tr.has_rect {
        sh.class("contains:Rect");
    }
    if tr.has_tri {
        sh.class(if raw_tri { "contains:Triangle(raw tuple constructor)" } else { "contains:Triangle(new)" });
    }
    {
        let mut s: Vec<(u64, u64)> = tr.c.iter().map(|c| (c.x.bits(), c.y.bits())).collect();
        let n = s.len();
        s.sort_unstable();
        s.dedup();
        if s.len() < n {
            sh.class("has_duplicate_coordinates");
        }
        if let Some((x0, y0, x1, y1)) = bounds(&tr.c) {
            let tie = |f: &dyn Fn(&Coord<f64>) -> bool| tr.c.iter().filter(|c| f(c)).count() > 1;
            if tie(&|c| c.x == x0) || tie(&|c| c.y == y0) || tie(&|c| c.x == x1) || tie(&|c| c.y == y1) {
                sh.class("extreme_attained_more_than_once");
            }
            if x0 < 0.0 || y0 < 0.0 {
                sh.class("lattice:negative");
            }
        }
    }
    if lat.ox != 0 || lat.oy != 0 {
        sh.class("lattice:offset");
    }
    if lat.sh < 0 {
        sh.class("lattice:fractional");
    } else if lat.sh > 0 {
        sh.class("lattice:scaled_up");
    }
    if tr.c.len() >= 2 {
        let mut h = Fnv::new();
        ig.digest(&mut h);
        h.u64(raw_tri as u64);
        sh.nontrivial(h.0);
    }
    sh.sample(|| json!({"geometry": trunc(format!("{:?}", ig.to_geo(lat))), "shape": tr.shape, "coords": tr.c.len(), "exterior_coords": tr.xc.len(), "bounds": format!("{:?}", bounds(&tr.c))}));
}

// ------------------------------------------------------------------------------------------------
// workload: hostile shapes, validity NOT required
// ------------------------------------------------------------------------------------------------
struct Gc {
    lo: i64,
    hi: i64,
}
fn cpt(r: &mut Rng, gc: &Gc) -> IP {
    (r.range(gc.lo, gc.hi), r.range(gc.lo, gc.hi))
}
fn gen_pts(r: &mut Rng, gc: &Gc, n: usize) -> Vec<IP> {
    let mut v: Vec<IP> = vec![];
    for _ in 0..n {
        // repeated coordinates on purpose
        if !v.is_empty() && r.chance(1, 5) {
            let p = *r.pick(&v);
            v.push(p);
        } else {
            v.push(cpt(r, gc));
        }
    }
    v
}
fn gen_ls(r: &mut Rng, gc: &Gc) -> Vec<IP> {
    let n = *r.pick(&[0usize, 0, 1, 1, 2, 2, 3, 4, 5, 7, 12]);
    gen_pts(r, gc, n)
}
fn gen_ring(r: &mut Rng, gc: &Gc, allow_empty: bool) -> Vec<IP> {
    let n = *r.pick(&[0usize, 1, 2, 3, 3, 4, 4, 4, 5, 6, 9]);
    let n = if n == 0 && !allow_empty { 3 } else { n };
    let mut v = gen_pts(r, gc, n);
    if !v.is_empty() && r.chance(5, 6) {
        let f = v[0];
        v.push(f); // explicitly closed (Polygon::new would close it anyway)
    }
    v
}
fn gen_poly(r: &mut Rng, gc: &Gc) -> Vec<Vec<IP>> {
    if r.chance(1, 14) {
        return vec![]; // Polygon::new(empty, [])
    }
    let shell = gen_ring(r, gc, true);
    let nh = *r.pick(&[0usize, 0, 0, 0, 1, 1, 2, 3, 4, 5, 6, 7, 8, 8]);
    let poke = r.chance(1, 8);
    let env = if shell.is_empty() { None } else { Some((shell.iter().map(|p| p.0).min().unwrap(), shell.iter().map(|p| p.0).max().unwrap(), shell.iter().map(|p| p.1).min().unwrap(), shell.iter().map(|p| p.1).max().unwrap())) };
    let mut rings = vec![shell];
    for _ in 0..nh {
        let h = if poke {
            gen_ring(r, &Gc { lo: gc.lo - 3, hi: gc.hi + 3 }, true)
        } else {
            match env {
                None => vec![], // an empty shell can only hold empty holes in the verdict stratum
                Some((x0, x1, y0, y1)) => {
                    let mut h = gen_ring(r, gc, true);
                    for p in h.iter_mut() {
                        *p = (x0 + (p.0 - gc.lo) % (x1 - x0 + 1), y0 + (p.1 - gc.lo) % (y1 - y0 + 1));
                    }
                    h
                }
            }
        };
        rings.push(h);
    }
    rings
}
fn gen_leaf(r: &mut Rng, gc: &Gc, kind: u64) -> IG {
    match kind {
        0 => IG::Point(cpt(r, gc)),
        1 => {
            let a = cpt(r, gc);
            IG::Line(a, if r.chance(1, 6) { a } else { cpt(r, gc) })
        }
        2 => IG::LineString(gen_ls(r, gc)),
        3 => IG::Polygon(gen_poly(r, gc)),
        4 => {
            let n = *r.pick(&[0usize, 0, 1, 2, 3, 6]);
            IG::MultiPoint(gen_pts(r, gc, n))
        }
        5 => {
            let n = *r.pick(&[0usize, 1, 1, 2, 3, 5]);
            IG::MultiLineString((0..n).map(|_| gen_ls(r, gc)).collect())
        }
        6 => {
            let n = *r.pick(&[0usize, 1, 1, 2, 3, 4]);
            IG::MultiPolygon((0..n).map(|_| gen_poly(r, gc)).collect())
        }
        7 => {
            let a = cpt(r, gc);
            let b = if r.chance(1, 8) { (a.0, cpt(r, gc).1) } else { cpt(r, gc) };
            IG::Rect(a, b)
        }
        _ => {
            let v = gen_pts(r, gc, 3);
            IG::Triangle(v[0], v[1], v[2])
        }
    }
}
fn gen_coll(r: &mut Rng, gc: &Gc, depth: usize, tower: bool) -> IG {
    let n = *r.pick(&[0usize, 1, 1, 2, 2, 3, 4, 5]);
    let mut v = vec![];
    for i in 0..n {
        if depth < 4 && ((tower && i == 0) || r.chance(1, 4)) {
            v.push(gen_coll(r, gc, depth + 1, tower));
        } else {
            let k = r.below(9);
            v.push(gen_leaf(r, gc, k));
        }
    }
    if tower && depth < 4 && v.is_empty() {
        v.push(gen_coll(r, gc, depth + 1, tower));
    }
    IG::Collection(v)
}
pub fn gen_case(r: &mut Rng) -> (IG, Lat, bool) {
    let lat = Lat::random(r);
    let raw_tri = r.chance(1, 4);
    // one case in 150: components of realistic length (a count just beyond a power of two, or 130-700 coordinates) whose
    // extreme coordinates sit anywhere, the very last one included: a line string, a ring as shell / hole / member, a
    // MultiPoint, alone or as member of a collection after shorter members
    if r.chance(1, 150) {
        let n = crate::gen::long_count(r);
        let walk = |r: &mut Rng, n: usize| -> Vec<IP> {
            let mut p = (0i64, 0i64);
            let peak = r.below(n as u64 + 1) as usize;
            (0..n)
                .map(|i| {
                    p = (p.0 + r.range(-3, 3), p.1 + r.range(-3, 3));
                    // one coordinate (often the last, or in the tail) sticks out of everything else
                    if i == peak.min(n - 1) || (i + 1 == n && r.chance(1, 2)) {
                        (p.0 + *r.pick(&[-5000i64, 5000]), p.1 + *r.pick(&[-7000i64, 7000]))
                    } else {
                        p
                    }
                })
                .collect()
        };
        let ig = match r.below(6) {
            0 => IG::LineString(walk(r, n)),
            1 => IG::MultiPoint(walk(r, n)),
            2 => IG::Polygon(vec![crate::gen::long_ring(r, n)]),
            3 => {
                let ring = crate::gen::long_ring(r, n);
                IG::Polygon(vec![vec![(-9000, -9000), (9000, -9000), (9000, 9000), (-9000, 9000), (-9000, -9000)], ring])
            }
            4 => IG::MultiLineString(vec![vec![(0, 0), (1, 1)], walk(r, n), vec![(2, 2), (3, 5), (4, 4)]]),
            _ => IG::Collection(vec![IG::Point((1, 2)), IG::LineString(walk(r, n)), IG::MultiPoint(walk(r, 20))]),
        };
        return (ig, lat, raw_tri);
    }
    for _ in 0..6 {
        let g = *r.pick(&[2i64, 3, 4, 6, 12, 1000]);
        let gc = if r.chance(1, 3) { Gc { lo: -g, hi: g } } else { Gc { lo: 0, hi: g } };
        let ig = match r.below(20) {
            k @ 0..=8 => gen_leaf(r, &gc, k),
            9 | 10 => gen_leaf(r, &gc, 3),
            11 => gen_leaf(r, &gc, 6),
            12..=15 => {
                let tower = r.chance(1, 3);
                gen_coll(r, &gc, 1, tower)
            }
            _ => gen_any(r, g.min(12)), // the valid shapes of the shared generators
        };
        if ig.coords().len() <= 160 {
            return (ig, lat, raw_tri);
        }
    }
    (IG::Point((0, 0)), lat, raw_tri)
}

fn flush(sh: &mut Shard, counts: &HashMap<(&'static str, &'static str), u64>) {
    let mut by_clause: BTreeMap<&str, u64> = BTreeMap::new();
    let mut by_site: BTreeMap<&str, u64> = BTreeMap::new();
    for (&(c, s), &n) in counts {
        if c.starts_with("observe:") {
            sh.class_n(&format!("{c}|{s}"), n);
        } else {
            *by_clause.entry(c).or_insert(0) += n;
            *by_site.entry(s).or_insert(0) += n;
        }
    }
    for (c, n) in by_clause {
        sh.class_n(&format!("clause:{c}"), n);
    }
    for (s, n) in by_site {
        sh.class_n(&format!("site:{s}"), n);
    }
}

pub fn run(ctx: &Ctx, sh: &mut Shard) {
    let mut counts: HashMap<(&'static str, &'static str), u64> = HashMap::new();
    let thorough = ctx.tier == "thorough";
    for k in ctx.case_indices() {
        if sh.cases >= ctx.budget {
            break;
        }
        ctx.mark_case(k);
        let mut r = Rng::derive(ctx.seed, ctx.shard, k);
        sh.cases += 1;
        let (ig, lat, raw_tri) = gen_case(&mut r);
        let alt = if thorough { 7 } else { 1u8 << (k % 3) };
        check_case(sh, &mut counts, &ig, &lat, raw_tri, alt, false);
    }
    flush(sh, &counts);
    if !ENUM_TRY_IN_PLACE_COMPILES && ctx.only.is_none() {
        uninstantiable(sh, false);
    }
    sh.notes.insert(
        "c19".into(),
        json!({"scalars": "f64 on every case (+ map f64->i64); quick: one of f32/i64/i32 per case (k mod 3); thorough: all three",
               "rect": "traversals compared up to rotation of the ccw corner cycle", "not_monitored": "GeometryCow (pub(crate), unreachable from outside the crate)"}),
    );
}

/// GENUINE DEFECT of the pinned tree, demonstrated at build time (a runtime call cannot exist): see `Tip`.
fn uninstantiable(sh: &mut Shard, verbose: bool) {
    let expected = "Geometry<T>::try_map_coords_in_place and GeometryCollection<T>::try_map_coords_in_place can be called and agree with map_coords_in_place / try_map_coords (clause `map.try_in_place_*`)";
    let got = "neither can be instantiated for any closure type: rustc 'reached the recursion limit while instantiating <Geometry as MapCoordsInPlace<f64>>::try_map_coords_in_place' / E0275 'required for &&&&...&dyn Fn(Coord) -> Result<Coord, usize> to implement Fn(Coord)' (geo/src/algorithm/map_coords.rs: the GeometryCollection impl passes `&func` to the Geometry impl, which passes it back)";
    if verbose {
        println!("compile-time defect (harness built without --cfg georust_geo_c19_enum_try_in_place):\n  expected {expected}\n  got      {got}");
    }
    sh.eval(1);
    sh.violation(
        "map.try_in_place_uninstantiable|Geometry+GeometryCollection|-",
        json!({"property": "C19", "check": "map.try_in_place_uninstantiable", "site": "Geometry+GeometryCollection", "expected": expected, "got": got,
               "compile_time": true,
               "reproduce": "RUSTFLAGS=\"--cfg georust_geo_verif --cfg georust_geo_c19_enum_try_in_place\" cargo build --release --offline  (fails on the pinned tree; compiles and is monitored once the impl is fixed)",
               "ig": IG::Collection(vec![IG::Point((0, 0))]).json(), "lat": Lat::ID.json(), "raw_tri": false}),
    );
}

pub fn replay(v: &Value, sh: &mut Shard) {
    if v["compile_time"].as_bool() == Some(true) {
        if ENUM_TRY_IN_PLACE_COMPILES {
            println!("this harness was built with --cfg georust_geo_c19_enum_try_in_place: the two impls compile; running them on the recorded input");
        } else {
            uninstantiable(sh, true);
            return;
        }
    }
    let ig = IG::from_json(&v["ig"]).expect("ig");
    let lat = Lat::from_json(&v["lat"]);
    let raw_tri = v["raw_tri"].as_bool().unwrap_or(false);
    println!("input = {:?}\nlattice = {:?} raw_tri = {}", ig.to_geo(&lat), lat, raw_tri);
    if let Some(s) = v["sig"].as_str() {
        println!("recorded: {}  expected {}  got {}", s, v["expected"], v["got"]);
    }
    let mut counts = HashMap::new();
    check_case(sh, &mut counts, &ig, &lat, raw_tri, 7, true);
}
