//! C08 — convex hull is the smallest convex polygon containing the input; minimum_rotated_rect.
//!
//! Oracle (independent of geo): the input is an integer point multiset (i64), delivered to geo as
//! f64 / f32 (value = int * 2^sh, exact), i32 or i64.  Every geometric question about geo's output is
//! decided on the integer preimages with i128 orientation determinants (exact: |coordinate
//! difference| < 2^54, so a 2x2 determinant is < 2^109).  The reference hull is Andrew's monotone
//! chain (strict: pops on `<= 0`), self-checked against the Caratheodory definition on small cases.
//! Each clause of the statement is judged separately on every entry point's ring:
//!
//!   hull.closed            first == last and the ring has at least 2 coordinates
//!   hull.vertex_is_input   every ring coordinate is bit-for-bit one of the input coordinates
//!   hull.no_repeat         no coordinate occurs twice among the vertices (ring minus its closing one)
//!   hull.convex_ccw        >= 3 vertices and no vertex with a clockwise turn or a 180-degree reversal
//!   hull.vertex_on_segment no vertex lies on the segment between its two neighbours
//!   hull.contains          every input coordinate is left-of-or-on every directed hull edge
//!   hull.vertex_set.extra / .missing   vertex set == reference vertex set (smallest = exactly the extreme points)
//!   hull.no_interiors      the Polygon returned by the trait has no interior rings
//!   hull.entry_points_agree  vertex sets of quick_hull and graham_hull(.., false) are equal
//!   hull.panic / hull.hang no entry point panics or fails to return within 10 s (also on degenerate input)
//! Signatures are `check|site[regime]|-`; the regime suffix (float scalars: "[float products round]",
//! "[float differences round]") and "[input has a repeated coordinate]" for graham_hull(true) are
//! input-defined predicates that keep the four defects of the pinned tree (REPORT.md D1-D4, smallest
//! witnesses in FIXED_WITNESSES) apart from everything else.
//! documented behaviour next to the statement (is_convex.rs trait docs; graham.rs docs):
//!   isconvex.ref           IsConvex predicates on rings built from the reference hull (strict / reversed / with an on-edge vertex)
//!   isconvex.agree         LineString::is_strictly_ccw_convex() on geo's own ring == the exact verdict
//!   graham_on.*            graham_hull(.., true): closed, vertices are inputs, no clockwise turn /
//!                          reversal, contains every input, has every extreme point
//! minimum_rotated_rect (f64, f32), judged in double-double arithmetic on the exact preimages:
//!   mrr.some, mrr.rectangle (5 coords, closed, finite, 4 right angles), mrr.contains,
//!   mrr.area_le_aabb, mrr.area_minimal (doc: "smallest area of all enclosing rectangles")
use crate::report::*;
use crate::rng::{Fnv, Rng};
use geo::algorithm::convex_hull::{graham_hull, quick_hull};
use geo::{
    ConvexHull, Coord, GeoFloat, GeoNum, Geometry, GeometryCollection, IsConvex, Line, LineString, MinimumRotatedRect, MultiLineString, MultiPoint, MultiPolygon, Point,
    Polygon, Rect, Triangle,
};
use serde_json::{json, Value};

pub type IP = (i64, i64);

// ------------------------------------------------------------------------------------------------
// tolerances for minimum_rotated_rect, all in units of u*E (u = unit roundoff of the scalar type,
// E = largest absolute input coordinate).
//
// Derivation.  geo rotates the hull about its centroid c by -angle, takes the bounding box, and
// rotates the box back by +angle.  One rotation computes x' = a*x + b*y + xoff with |a|,|b| <= 1 and
// xoff = c.x - a*c.x + b*c.y: 3 products + 3 sums on magnitudes <= E (c is inside the hull), i.e. an
// absolute error <= ~ (3 + 4)*u*E per coordinate including the rounding of a, b, xoff themselves;
// the angle itself (atan2 -> to_degrees -> to_radians -> sin_cos) is off by a few u relative, which
// moves a point by a few u * extent <= a few u*2E.  Two rotations in sequence: <= ~ 20 u*E per
// coordinate, ~ 28 u*E for a distance.  Observed maxima over 36 shard runs (5.4e6 cases, REPORT.md):
// 8.6 u*E (outside), 6.0 u*E (right angle), 9.4 u*E*(W+H) (area).  K = 256 keeps the required 16x
// margin and is still 2^-45 relative for f64, far below any real defect (a wrong angle or centre is
// off by a fraction of the extent).
//   mrr.contains   : distance of an input coordinate outside any side            <= K_IN  * u*E
//   mrr.rectangle  : |e_i . e_{i+1}| / max(|e_i|,|e_{i+1}|) (offset of the corner) <= K_ANG * u*E
//   mrr.area_*     : area - reference area <= K_AREA * u*E * (W+H)   (W,H = bounding box sides; a
//                    side of the rectangle is <= W+H, an error d on both sides adds <= d*2(W+H))
const K_IN: f64 = 256.0;
const K_ANG: f64 = 256.0;
const K_AREA: f64 = 256.0;

macro_rules! with_cont {
    ($c:expr, $x:ident => $body:expr) => {
        match $c {
            Cont::Point($x) => $body,
            Cont::Line($x) => $body,
            Cont::LineString($x) => $body,
            Cont::Polygon($x) => $body,
            Cont::MultiPoint($x) => $body,
            Cont::MultiLineString($x) => $body,
            Cont::MultiPolygon($x) => $body,
            Cont::GeometryCollection($x) => $body,
            Cont::Geometry($x) => $body,
            Cont::Rect($x) => $body,
            Cont::Triangle($x) => $body,
            Cont::Slice(v) => {
                let s: &[Coord<_>] = v.as_slice();
                let $x = &s;
                $body
            }
            Cont::Arr4($x) => $body,
            Cont::Arr6($x) => $body,
        }
    };
}

// ------------------------------------------------------------------------------------------------
// scalar types
pub trait Sc: GeoNum + std::fmt::Debug + Send + Sync + 'static {
    const NAME: &'static str;
    const FLOAT: bool;
    const U: f64;
    fn enc(v: i64, sh: i32) -> Self;
    fn dec(self, sh: i32) -> Option<i64>;
    fn bits(self) -> u64;
    fn as_f64(self) -> f64;
    fn mrr(_c: &Cont<Self>) -> Option<Result<Option<Polygon<Self>>, String>> {
        None
    }
}
impl Sc for f64 {
    const NAME: &'static str = "f64";
    const FLOAT: bool = true;
    const U: f64 = 1.1102230246251565e-16; // 2^-53
    fn enc(v: i64, sh: i32) -> f64 {
        (v as f64) * 2f64.powi(sh)
    }
    fn dec(self, sh: i32) -> Option<i64> {
        let y = self * 2f64.powi(-sh);
        // (integers beyond 2^53 are fine as long as they are exactly representable: the round trip below decides)
        if !y.is_finite() || y.fract() != 0.0 || y.abs() > 4611686018427387904.0 {
            return None;
        }
        let v = y as i64;
        if Self::enc(v, sh).to_bits() == self.to_bits() {
            Some(v)
        } else {
            None
        }
    }
    fn bits(self) -> u64 {
        self.to_bits()
    }
    fn as_f64(self) -> f64 {
        self
    }
    fn mrr(c: &Cont<f64>) -> Option<Result<Option<Polygon<f64>>, String>> {
        Some(mrr_float(c))
    }
}
impl Sc for f32 {
    const NAME: &'static str = "f32";
    const FLOAT: bool = true;
    const U: f64 = 5.960464477539063e-8; // 2^-24
    fn enc(v: i64, sh: i32) -> f32 {
        (v as f32) * 2f32.powi(sh)
    }
    fn dec(self, sh: i32) -> Option<i64> {
        let y = (self as f64) * 2f64.powi(-sh);
        // (integers beyond 2^24 are fine as long as they are exactly representable: the round trip below decides)
        if !y.is_finite() || y.fract() != 0.0 || y.abs() > 4611686018427387904.0 {
            return None;
        }
        let v = y as i64;
        if Self::enc(v, sh).to_bits() == self.to_bits() {
            Some(v)
        } else {
            None
        }
    }
    fn bits(self) -> u64 {
        self.to_bits() as u64
    }
    fn as_f64(self) -> f64 {
        self as f64
    }
    fn mrr(c: &Cont<f32>) -> Option<Result<Option<Polygon<f32>>, String>> {
        Some(mrr_float(c))
    }
}
impl Sc for i32 {
    const NAME: &'static str = "i32";
    const FLOAT: bool = false;
    const U: f64 = 0.0;
    fn enc(v: i64, _sh: i32) -> i32 {
        v as i32
    }
    fn dec(self, _sh: i32) -> Option<i64> {
        Some(self as i64)
    }
    fn bits(self) -> u64 {
        self as i64 as u64
    }
    fn as_f64(self) -> f64 {
        self as f64
    }
}
impl Sc for i64 {
    const NAME: &'static str = "i64";
    const FLOAT: bool = false;
    const U: f64 = 0.0;
    fn enc(v: i64, _sh: i32) -> i64 {
        v
    }
    fn dec(self, _sh: i32) -> Option<i64> {
        Some(self)
    }
    fn bits(self) -> u64 {
        self as u64
    }
    fn as_f64(self) -> f64 {
        self as f64
    }
}
fn mrr_float<T: Sc + GeoFloat>(c: &Cont<T>) -> Result<Option<Polygon<T>>, String> {
    callp(|| with_cont!(c, x => x.minimum_rotated_rect()))
}
const SCALARS: [&str; 4] = ["f64", "f32", "i32", "i64"];

// ------------------------------------------------------------------------------------------------
// containers: every type implementing ConvexHull (= every CoordsIter type)
pub enum Cont<T: Sc> {
    Point(Point<T>),
    Line(Line<T>),
    LineString(LineString<T>),
    Polygon(Polygon<T>),
    MultiPoint(MultiPoint<T>),
    MultiLineString(MultiLineString<T>),
    MultiPolygon(MultiPolygon<T>),
    GeometryCollection(GeometryCollection<T>),
    Geometry(Geometry<T>),
    Rect(Rect<T>),
    Triangle(Triangle<T>),
    Slice(Vec<Coord<T>>),
    Arr4([Coord<T>; 4]),
    Arr6([Coord<T>; 6]),
}

pub const CONTS: [&str; 14] =
    ["MultiPoint", "LineString", "Polygon", "MultiLineString", "MultiPolygon", "GeometryCollection", "Geometry", "Slice", "Point", "Line", "Triangle", "Rect", "Arr4", "Arr6"];

/// containers applicable to an input of n coordinates
fn pick_container(r: &mut Rng, n: usize) -> &'static str {
    let special = match n {
        1 => Some("Point"),
        2 => Some("Line"),
        3 => Some("Triangle"),
        4 => Some("Arr4"),
        6 => Some("Arr6"),
        _ => None,
    };
    if let Some(s) = special {
        if r.chance(1, 3) {
            return s;
        }
    }
    CONTS[r.below(8) as usize]
}

fn chunks<T: Copy>(r: &mut Rng, v: &[T], kmax: u64) -> Vec<Vec<T>> {
    let k = 1 + r.below(kmax) as usize;
    let mut cuts: Vec<usize> = (0..k - 1).map(|_| r.below(v.len() as u64 + 1) as usize).collect();
    cuts.push(0);
    cuts.push(v.len());
    cuts.sort_unstable();
    cuts.windows(2).map(|w| v[w[0]..w[1]].to_vec()).collect()
}
fn some_of<T: Copy>(r: &mut Rng, v: &[T], k: usize) -> Vec<T> {
    if v.is_empty() {
        return vec![];
    }
    (0..k).map(|_| *r.pick(v)).collect()
}

/// Build the container.  Every container holds exactly the coordinate SET of `cs` (closing
/// coordinates and interior rings only repeat coordinates of `cs`; exterior rings together hold all
/// of `cs`), so the expected hull does not depend on how CoordsIter walks it.
fn build<T: Sc>(name: &str, cs: &[Coord<T>], cseed: u64) -> Cont<T> {
    let mut r = Rng::new(cseed);
    let r = &mut r;
    match name {
        "Point" => Cont::Point(Point(cs[0])),
        "Line" => Cont::Line(Line::new(cs[0], cs[1])),
        "Triangle" => Cont::Triangle(Triangle(cs[0], cs[1], cs[2])),
        "Rect" => {
            // cs are the four corners; Rect::new normalises to min/max
            let (mut lo, mut hi) = (cs[0], cs[0]);
            for c in cs {
                if c.x < lo.x {
                    lo.x = c.x
                }
                if c.y < lo.y {
                    lo.y = c.y
                }
                if c.x > hi.x {
                    hi.x = c.x
                }
                if c.y > hi.y {
                    hi.y = c.y
                }
            }
            if r.chance(1, 2) {
                Cont::Rect(Rect::new(lo, hi))
            } else {
                Cont::Rect(Rect::new(Coord { x: lo.x, y: hi.y }, Coord { x: hi.x, y: lo.y }))
            }
        }
        "Arr4" => Cont::Arr4([cs[0], cs[1], cs[2], cs[3]]),
        "Arr6" => Cont::Arr6([cs[0], cs[1], cs[2], cs[3], cs[4], cs[5]]),
        "Slice" => Cont::Slice(cs.to_vec()),
        "MultiPoint" => Cont::MultiPoint(MultiPoint(cs.iter().map(|c| Point(*c)).collect())),
        "LineString" => Cont::LineString(LineString::new(cs.to_vec())),
        "Polygon" => Cont::Polygon(build_polygon(r, cs, cs)),
        "MultiLineString" => Cont::MultiLineString(MultiLineString(chunks(r, cs, 4).into_iter().map(LineString::new).collect())),
        "MultiPolygon" => Cont::MultiPolygon(MultiPolygon(chunks(r, cs, 4).into_iter().map(|c| build_polygon(r, &c, cs)).collect())),
        "GeometryCollection" => Cont::GeometryCollection(build_gc(r, cs, 0)),
        "Geometry" => {
            let inner = ["MultiPoint", "LineString", "Polygon", "MultiLineString", "MultiPolygon", "GeometryCollection"][r.below(6) as usize];
            Cont::Geometry(match build(inner, cs, r.next()) {
                Cont::MultiPoint(x) => Geometry::MultiPoint(x),
                Cont::LineString(x) => Geometry::LineString(x),
                Cont::Polygon(x) => Geometry::Polygon(x),
                Cont::MultiLineString(x) => Geometry::MultiLineString(x),
                Cont::MultiPolygon(x) => Geometry::MultiPolygon(x),
                Cont::GeometryCollection(x) => Geometry::GeometryCollection(x),
                _ => unreachable!(),
            })
        }
        other => panic!("unknown container {other}"),
    }
}
fn build_polygon<T: Sc>(r: &mut Rng, ext: &[Coord<T>], all: &[Coord<T>]) -> Polygon<T> {
    let nint = if r.chance(1, 3) { 1 + r.below(2) as usize } else { 0 };
    let ints: Vec<LineString<T>> = (0..nint)
        .map(|_| {
            let k = 3 + r.below(3) as usize;
            LineString::new(some_of(r, all, k))
        })
        .collect();
    Polygon::new(LineString::new(ext.to_vec()), ints)
}
fn build_gc<T: Sc>(r: &mut Rng, cs: &[Coord<T>], depth: u32) -> GeometryCollection<T> {
    let mut out = vec![];
    for c in chunks(r, cs, 5) {
        let g = match (c.len(), r.below(4)) {
            (0, 0) => Geometry::MultiPoint(MultiPoint(vec![])),
            (0, _) => Geometry::LineString(LineString::new(vec![])),
            (1, 0) => Geometry::MultiPoint(MultiPoint(vec![Point(c[0])])),
            (1, _) => Geometry::Point(Point(c[0])),
            (2, 0) => Geometry::LineString(LineString::new(c)),
            (2, _) => Geometry::Line(Line::new(c[0], c[1])),
            (3, 0) => Geometry::Triangle(Triangle(c[0], c[1], c[2])),
            (_, 0) => Geometry::MultiPoint(MultiPoint(c.iter().map(|p| Point(*p)).collect())),
            (_, 1) => Geometry::LineString(LineString::new(c)),
            (_, 2) => Geometry::Polygon(build_polygon(r, &c, cs)),
            (_, _) => {
                if depth < 2 {
                    Geometry::GeometryCollection(build_gc(r, &c, depth + 1))
                } else {
                    Geometry::MultiLineString(MultiLineString(chunks(r, &c, 3).into_iter().map(LineString::new).collect()))
                }
            }
        };
        out.push(g);
    }
    GeometryCollection(out)
}

// ------------------------------------------------------------------------------------------------
// exact reference
#[inline]
fn orient(a: IP, b: IP, c: IP) -> i128 {
    let (abx, aby) = (b.0 as i128 - a.0 as i128, b.1 as i128 - a.1 as i128);
    let (acx, acy) = (c.0 as i128 - a.0 as i128, c.1 as i128 - a.1 as i128);
    abx * acy - aby * acx
}
#[inline]
fn dot3(v: IP, a: IP, b: IP) -> i128 {
    // (a - v) . (b - v)
    (a.0 as i128 - v.0 as i128) * (b.0 as i128 - v.0 as i128) + (a.1 as i128 - v.1 as i128) * (b.1 as i128 - v.1 as i128)
}
/// Andrew's monotone chain, strict; CCW, not closed.  < 3 distinct or all collinear: the 1 or 2 extreme points.
pub fn ref_hull(pts: &[IP]) -> Vec<IP> {
    let mut p = pts.to_vec();
    p.sort_unstable();
    p.dedup();
    if p.len() < 3 {
        return p;
    }
    let mut h: Vec<IP> = Vec::with_capacity(p.len() + 1);
    for &q in &p {
        while h.len() >= 2 && orient(h[h.len() - 2], h[h.len() - 1], q) <= 0 {
            h.pop();
        }
        h.push(q);
    }
    let lower = h.len() + 1;
    for &q in p.iter().rev().skip(1) {
        while h.len() >= lower && orient(h[h.len() - 2], h[h.len() - 1], q) <= 0 {
            h.pop();
        }
        h.push(q);
    }
    h.pop();
    h
}
/// Second definition (Caratheodory), O(n^4): v is extreme iff it is neither on a segment between two
/// other distinct points nor inside-or-on a non-degenerate triangle of three other points.
fn extreme_brute(set: &[IP]) -> Vec<IP> {
    let n = set.len();
    let mut out = vec![];
    'v: for i in 0..n {
        let v = set[i];
        for a in 0..n {
            if a == i {
                continue;
            }
            for b in (a + 1)..n {
                if b == i {
                    continue;
                }
                if orient(set[a], set[b], v) == 0 && dot3(v, set[a], set[b]) < 0 {
                    continue 'v;
                }
                for c in (b + 1)..n {
                    if c == i {
                        continue;
                    }
                    let (pa, pb, pc) = (set[a], set[b], set[c]);
                    let o = orient(pa, pb, pc);
                    if o == 0 {
                        continue;
                    }
                    let s = if o > 0 { 1 } else { -1 };
                    if orient(pa, pb, v) * s >= 0 && orient(pb, pc, v) * s >= 0 && orient(pc, pa, v) * s >= 0 {
                        continue 'v;
                    }
                }
            }
        }
        out.push(v);
    }
    out.sort_unstable();
    out
}

pub struct Inp {
    pub pts: Vec<IP>,
    pub set: Vec<IP>,
    pub refh: Vec<IP>,
    pub refset: Vec<IP>,
    pub n_on_edge: usize,
    pub n_inside: usize,
    pub dups: usize,
    /// an input coordinate strictly inside reference edge i (refh[i] -> refh[i+1]), if there is one
    pub on_edge: Option<(usize, IP)>,
}
impl Inp {
    pub fn new(pts: &[IP]) -> Inp {
        let mut set = pts.to_vec();
        set.sort_unstable();
        set.dedup();
        let refh = ref_hull(pts);
        let mut refset = refh.clone();
        refset.sort_unstable();
        let (mut n_on_edge, mut n_inside) = (0, 0);
        let mut on_edge = None;
        if refh.len() >= 3 {
            let m = refh.len();
            for &p in &set {
                if refset.binary_search(&p).is_ok() {
                    continue;
                }
                if let Some(i) = (0..m).find(|&i| orient(refh[i], refh[(i + 1) % m], p) == 0) {
                    n_on_edge += 1;
                    on_edge.get_or_insert((i, p));
                } else {
                    n_inside += 1;
                }
            }
        }
        Inp { pts: pts.to_vec(), dups: pts.len() - set.len(), set, refh, refset, n_on_edge, n_inside, on_edge }
    }
    pub fn in_domain(&self) -> bool {
        self.refh.len() >= 3
    }
}

// ------------------------------------------------------------------------------------------------
// a case
#[derive(Clone, Debug)]
pub struct Case {
    pub scalar: usize, // index into SCALARS
    pub pts: Vec<IP>,  // effective input coordinates, integer preimages
    pub sh: i32,       // value = int * 2^sh (floats only)
    pub cont: &'static str,
    pub cseed: u64,
    pub stratum: &'static str,
    pub full: bool, // also run the trait / is_convex / graham(true) / mrr legs
}
impl Case {
    fn json(&self) -> Value {
        json!({"scalar": SCALARS[self.scalar], "pts": self.pts.iter().map(|p| json!([p.0, p.1])).collect::<Vec<_>>(), "sh": self.sh,
               "container": self.cont, "cseed": self.cseed, "stratum": self.stratum, "full": self.full})
    }
    fn from_json(v: &Value) -> Case {
        let sc = v["scalar"].as_str().unwrap_or("f64");
        let cont = v["container"].as_str().unwrap_or("MultiPoint");
        Case {
            scalar: SCALARS.iter().position(|s| *s == sc).unwrap_or(0),
            pts: v["pts"].as_array().map(|a| a.iter().map(|p| (p[0].as_i64().unwrap(), p[1].as_i64().unwrap())).collect()).unwrap_or_default(),
            sh: v["sh"].as_i64().unwrap_or(0) as i32,
            cont: CONTS.iter().find(|c| **c == cont).copied().unwrap_or("MultiPoint"),
            cseed: v["cseed"].as_u64().unwrap_or(0),
            stratum: "replay",
            full: v["full"].as_bool().unwrap_or(true),
        }
    }
    fn digest(&self) -> u64 {
        let mut h = Fnv::new();
        h.u64(self.scalar as u64);
        h.i64(self.sh as i64);
        for p in &self.pts {
            h.i64(p.0);
            h.i64(p.1);
        }
        h.0
    }
}

struct Cx<'a, T: Sc> {
    case: &'a Case,
    inp: &'a Inp,
    in_bits: Vec<(u64, u64)>,
    /// input-defined numeric regime of a float case ("" when every float operation geo performs on
    /// coordinate differences is exact), appended to the call site in violation signatures
    regime: &'static str,
    verbose: bool,
    /// Some(true) when geo's quick_hull / convex_hull output is bit-identical to what the PINNED quick-hull
    /// algorithm (emulated below, with its rounded farthest-point search) returns for the same coordinate list
    emu_quick: std::cell::Cell<Option<bool>>,
    emu_hull: std::cell::Cell<Option<bool>>,
    _t: std::marker::PhantomData<T>,
}

// ------------------------------------------------------------------------------------------------
// Emulation of the pinned quick-hull (geo/src/algorithm/convex_hull/qhull.rs as repaired by 6fdf8b23), for
// the known finding `qhull_farthest_point_rounds`: same float operations in the same order for the farthest-point
// search, exact integer orientation (on the lattice pre-images) where geo uses the robust kernel. A wrong hull is
// attributed to the known finding only if it is exactly this algorithm's answer; a changed quick-hull that fails
// in the same numeric regime gives a different ring and stays a violation.
mod emu {
    use super::Sc;
    use geo::Coord;
    type Pt<T> = (Coord<T>, (i64, i64));
    fn ccw<T: Sc>(a: &Pt<T>, b: &Pt<T>, c: &Pt<T>) -> bool {
        crate::ig::orient_i(a.1, b.1, c.1) > 0
    }
    fn partition<'s, T: Sc>(data: &'s mut [Pt<T>], pred: &dyn Fn(&Pt<T>) -> bool) -> &'s mut [Pt<T>] {
        let len = data.len();
        if len == 0 {
            return data;
        }
        let (mut l, mut r) = (0, len - 1);
        loop {
            while l < len && pred(&data[l]) {
                l += 1;
            }
            while r > 0 && !pred(&data[r]) {
                r -= 1;
            }
            if l >= r {
                return &mut data[..l];
            }
            data.swap(l, r);
        }
    }
    fn hull_set<T: Sc>(p_a: Pt<T>, p_b: Pt<T>, set: &mut [Pt<T>], hull: &mut Vec<Coord<T>>, depth: usize) -> Option<()> {
        if depth > 4000 {
            return None;
        }
        if set.is_empty() {
            return Some(());
        }
        if set.len() == 1 {
            hull.push(set[0].0);
            return Some(());
        }
        let (a, b) = (p_a.0, p_b.0);
        let p_orth = Coord { x: a.y - b.y, y: b.x - a.x };
        let p_along = Coord { x: b.x - a.x, y: b.y - a.y };
        let mut keys = vec![];
        for pt in set.iter() {
            let p_diff = Coord { x: pt.0.x - a.x, y: pt.0.y - a.y };
            keys.push((p_orth.x * p_diff.x + p_orth.y * p_diff.y, p_along.x * p_diff.x + p_along.y * p_diff.y));
        }
        if keys.iter().any(|k| k.0.partial_cmp(&k.0).is_none() || k.1.partial_cmp(&k.1).is_none()) {
            return None; // geo would panic on the unwrap
        }
        let furthest_idx = keys.iter().enumerate().max_by(|(_, x), (_, y)| x.partial_cmp(y).unwrap()).unwrap().0;
        set.swap(0, furthest_idx);
        let (head, set) = set.split_first_mut().unwrap();
        let fp = *head;
        {
            let points = partition(set, &|p| ccw(&fp, &p_b, p));
            hull_set(fp, p_b, points, hull, depth + 1)?;
        }
        hull.push(fp.0);
        let points = partition(set, &|p| ccw(&p_a, &fp, p));
        hull_set(p_a, fp, points, hull, depth + 1)
    }
    /// None: not emulated (fewer than 4 coordinates take the trivial path; NaN keys; runaway recursion)
    pub fn quick_hull<T: Sc>(cs: &[Coord<T>], sh: i32) -> Option<Vec<Coord<T>>> {
        if cs.len() < 4 {
            return None;
        }
        let mut v: Vec<Pt<T>> = vec![];
        for c in cs {
            v.push((*c, (c.x.dec(sh)?, c.y.dec(sh)?)));
        }
        let lex = |p: &Pt<T>, q: &Pt<T>| p.1.cmp(&q.1); // the encoding is monotone: same order as geo's lex_cmp on the floats
        let (mut min_idx, mut max_idx) = (0usize, 0usize);
        for (i, p) in v.iter().enumerate() {
            if lex(p, &v[min_idx]) == std::cmp::Ordering::Less {
                min_idx = i;
            }
            if lex(p, &v[max_idx]) == std::cmp::Ordering::Greater {
                max_idx = i;
            }
        }
        let mut points: &mut [Pt<T>] = &mut v[..];
        points.swap(0, min_idx);
        let (h, t) = points.split_first_mut().unwrap();
        let min = *h;
        points = t;
        if max_idx == 0 {
            max_idx = min_idx;
        }
        max_idx = max_idx.saturating_sub(1);
        points.swap(0, max_idx);
        let (h, t) = points.split_first_mut().unwrap();
        let max = *h;
        points = t;
        let mut hull = vec![];
        {
            let p = partition(points, &|p| ccw(&max, &min, p));
            hull_set(max, min, p, &mut hull, 0)?;
        }
        hull.push(max.0);
        let p = partition(points, &|p| ccw(&min, &max, p));
        hull_set(min, max, p, &mut hull, 0)?;
        hull.push(min.0);
        if hull.first() != hull.last() {
            let f = hull[0];
            hull.push(f);
        }
        Some(hull)
    }
}
thread_local! {
    /// set by judge_mrr around the report of a violation that matches the recorded minimum_rotated_rect finding
    static KNOWN_MRR: std::cell::Cell<bool> = const { std::cell::Cell::new(false) };
}
impl<'a, T: Sc> Cx<'a, T> {
    fn viol(&self, sh: &mut Shard, check: &str, site: &str, expected: String, got: String, ring: Value) {
        // graham_hull(.., true) is not named by the statement of C08 (it speaks of the quick-hull and Graham-scan
        // entry points giving the same *strict* vertex set): its clauses are counted, not judged.
        if check.starts_with("graham_on.") {
            sh.class(&format!("observe_only:{check}:{site}{}", self.regime));
            return;
        }
        let site_plain = site.to_string();
        let site = &format!("{site}{}", self.regime);
        // known finding: quick_hull's farthest-point selection uses a rounded dot product; attributed only in the
        // input-defined regimes where that arithmetic is not exact, and only at the quick-hull entry points
        let emulated = if site_plain.starts_with("quick_hull") {
            self.emu_quick.get()
        } else if site_plain.starts_with("convex_hull") {
            self.emu_hull.get()
        } else {
            None
        };
        let cls = if !self.regime.is_empty() && check.starts_with("hull.") && emulated == Some(true) {
            "qhull_farthest_point_rounds"
        } else if check == "mrr.contains" && KNOWN_MRR.with(|k| k.get()) {
            "mrr_rotates_about_centroid_of_thin_hull"
        } else {
            "-"
        };
        let sig = format!("{check}|{site}|{cls}");
        sh.class(&format!("viol:{check}:{}", T::NAME));
        if !self.verbose && (sh.viol_sigs.get(&sig).copied().unwrap_or(0) >= 3 || (cls != "-" && sh.violations.len() >= 60)) {
            // the Shard keeps only the first 3 details per signature (60 in total): skip building one
            sh.violation(&sig, Value::Null);
            return;
        }
        let mut d = self.case.json();
        let m = d.as_object_mut().unwrap();
        m.insert("property".into(), json!("C08"));
        m.insert("check".into(), json!(check));
        m.insert("site".into(), json!(site));
        m.insert("expected".into(), json!(expected));
        m.insert("got".into(), json!(got));
        m.insert("got_ring".into(), ring);
        m.insert("ref_hull".into(), json!(self.inp.refh.iter().map(|p| json!([p.0, p.1])).collect::<Vec<_>>()));
        if self.verbose {
            println!("  VIOLATION {check} at {site}: expected {} got {}", m["expected"], m["got"]);
        }
        sh.violation(&sig, d);
    }
    fn ring_json(&self, ring: &[Coord<T>]) -> Value {
        json!(ring
            .iter()
            .take(400)
            .map(|c| match (c.x.dec(self.case.sh), c.y.dec(self.case.sh)) {
                (Some(x), Some(y)) => json!([x, y]),
                _ => json!(format!("{:?}", c)),
            })
            .collect::<Vec<_>>())
    }
}
fn fmt_ips(v: &[IP]) -> String {
    let s: Vec<String> = v.iter().map(|p| format!("({},{})", p.0, p.1)).collect();
    format!("[{}]", s.join(" "))
}

/// Judge one ring of a strict-hull entry point against every clause.  Returns the sorted vertex set
/// when all vertices could be mapped back to input coordinates.
fn judge_strict<T: Sc>(sh: &mut Shard, cx: &Cx<T>, site: &str, ring: &[Coord<T>]) -> Option<Vec<IP>> {
    let inp = cx.inp;
    let rj = || cx.ring_json(ring);
    // a hull of n coordinates has at most n vertices; a (much) longer ring has a repeated vertex or a
    // vertex that is not an input (pigeonhole) - reported without walking a possibly gigantic ring
    if ring.len() > 2 * inp.pts.len() + 8 {
        sh.eval(1);
        cx.viol(sh, "hull.no_repeat", site, format!("at most {} vertices (no repeated vertex, every vertex an input coordinate)", inp.set.len()), format!("ring of {} coordinates", ring.len()), rj());
        return None;
    }
    // closed
    sh.eval(1);
    let closed = ring.len() >= 2 && ring[0] == ring[ring.len() - 1];
    if !closed {
        cx.viol(sh, "hull.closed", site, "closed ring (first == last, >= 2 coordinates)".into(), format!("{} coordinates, first {:?} last {:?}", ring.len(), ring.first(), ring.last()), rj());
    }
    let verts = if closed { &ring[..ring.len() - 1] } else { ring };
    // every vertex is an input coordinate, bit for bit
    sh.eval(1);
    let mut v: Vec<IP> = Vec::with_capacity(verts.len());
    for c in verts {
        let ok = cx.in_bits.binary_search(&(c.x.bits(), c.y.bits())).is_ok();
        let d = (c.x.dec(cx.case.sh), c.y.dec(cx.case.sh));
        match (ok, d) {
            (true, (Some(x), Some(y))) => v.push((x, y)),
            _ => {
                cx.viol(sh, "hull.vertex_is_input", site, "every hull vertex is bit-for-bit an input coordinate".into(), format!("{:?}", c), rj());
                return None;
            }
        }
    }
    let m = v.len();
    // no repeated vertex
    sh.eval(1);
    let mut vs = v.clone();
    vs.sort_unstable();
    if let Some(w) = vs.windows(2).find(|w| w[0] == w[1]) {
        cx.viol(sh, "hull.no_repeat", site, "no repeated vertex".into(), format!("({},{}) occurs more than once in {}", w[0].0, w[0].1, fmt_ips(&v)), rj());
    }
    vs.dedup();
    // convex + counter-clockwise; no vertex on the segment between its neighbours
    sh.eval(2);
    if m < 3 {
        cx.viol(sh, "hull.convex_ccw", site, ">= 3 vertices for input with 3 non-collinear coordinates".into(), format!("{} vertices {}", m, fmt_ips(&v)), rj());
    } else {
        let (mut bad_turn, mut on_seg) = (None, None);
        for i in 0..m {
            let (a, b, c) = (v[(i + m - 1) % m], v[i], v[(i + 1) % m]);
            if a == b || b == c {
                continue; // a repeat: reported by hull.no_repeat
            }
            let o = orient(a, b, c);
            if o < 0 {
                bad_turn.get_or_insert((a, b, c, "clockwise turn"));
            } else if o == 0 {
                if dot3(b, a, c) < 0 {
                    on_seg.get_or_insert((a, b, c));
                } else {
                    bad_turn.get_or_insert((a, b, c, "180-degree reversal"));
                }
            }
        }
        if let Some((a, b, c, what)) = bad_turn {
            cx.viol(sh, "hull.convex_ccw", site, "strictly counter-clockwise turn at every vertex".into(), format!("{what} at {:?} (neighbours {:?}, {:?}) in {}", b, a, c, fmt_ips(&v)), rj());
        }
        if let Some((a, b, c)) = on_seg {
            cx.viol(sh, "hull.vertex_on_segment", site, "no vertex on the segment between its neighbours".into(), format!("vertex {:?} lies on segment {:?}-{:?}; ring {}", b, a, c, fmt_ips(&v)), rj());
        }
    }
    // containment of every input coordinate by exact orientation
    sh.eval(1);
    if m >= 2 {
        'outer: for &p in &inp.set {
            for i in 0..m {
                let (a, b) = (v[i], v[(i + 1) % m]);
                if a != b && orient(a, b, p) < 0 {
                    cx.viol(sh, "hull.contains", site, "every input coordinate left-of-or-on every hull edge".into(), format!("input {:?} is strictly right of edge {:?}->{:?}; ring {}", p, a, b, fmt_ips(&v)), rj());
                    break 'outer;
                }
            }
        }
    }
    // smallest: exactly the extreme points
    sh.eval(1);
    if vs != inp.refset {
        let extra: Vec<IP> = vs.iter().filter(|p| inp.refset.binary_search(p).is_err()).cloned().collect();
        let missing: Vec<IP> = inp.refset.iter().filter(|p| vs.binary_search(p).is_err()).cloned().collect();
        if !extra.is_empty() {
            cx.viol(sh, "hull.vertex_set.extra", site, format!("vertex set {}", fmt_ips(&inp.refset)), format!("extra {} missing {}", fmt_ips(&extra), fmt_ips(&missing)), rj());
        }
        if !missing.is_empty() {
            cx.viol(sh, "hull.vertex_set.missing", site, format!("vertex set {}", fmt_ips(&inp.refset)), format!("extra {} missing {}", fmt_ips(&extra), fmt_ips(&missing)), rj());
        }
    }
    // is_convex.rs on geo's own output
    if m >= 3 && closed {
        sh.eval(1);
        let strict_ok = (0..m).all(|i| orient(v[(i + m - 1) % m], v[i], v[(i + 1) % m]) > 0);
        let ls = LineString::new(ring.to_vec());
        match call(|| ls.is_strictly_ccw_convex()) {
            Ok(g) => {
                if g != strict_ok {
                    cx.viol(sh, "isconvex.agree", site, format!("is_strictly_ccw_convex() == {strict_ok} (exact orientation at every vertex)"), format!("{g}"), rj());
                }
            }
            Err(p) => cx.viol(sh, "isconvex.panic", site, "no panic".into(), format!("{p} at {}", last_panic_loc()), rj()),
        }
    }
    Some(vs)
}

/// is_convex.rs on rings built from the reference hull (independent of geo's hull code): the strict
/// hull is strictly CCW convex; with an on-edge input coordinate inserted it is CCW convex but not
/// strictly; reversed it is strictly CW convex and not CCW convex (trait docs of `IsConvex`).
fn judge_isconvex_ref<T: Sc>(sh: &mut Shard, cx: &Cx<T>) {
    let inp = cx.inp;
    let m = inp.refh.len();
    if m < 3 || m > 64 {
        return;
    }
    let enc = |v: &[IP]| -> LineString<T> {
        let mut c = to_coords::<T>(v, cx.case.sh);
        c.push(c[0]);
        LineString::new(c)
    };
    let mut put = |sh: &mut Shard, what: &str, ring: &LineString<T>, exp: [bool; 4]| {
        sh.eval(1);
        let got = call(|| [ring.is_strictly_ccw_convex(), ring.is_ccw_convex(), ring.is_strictly_cw_convex(), ring.is_convex()]);
        match got {
            Ok(g) if g == exp => {}
            Ok(g) => cx.viol(sh, "isconvex.ref", what, format!("[strictly_ccw, ccw, strictly_cw, convex] = {:?}", exp), format!("{:?}", g), cx.ring_json(&ring.0)),
            Err(p) => cx.viol(sh, "isconvex.panic", what, "no panic".into(), p, cx.ring_json(&ring.0)),
        }
    };
    put(sh, "strict hull", &enc(&inp.refh), [true, true, false, true]);
    let mut rev = inp.refh.clone();
    rev.reverse();
    put(sh, "reversed hull", &enc(&rev), [false, false, true, true]);
    if let Some((i, p)) = inp.on_edge {
        let mut w = inp.refh.clone();
        w.insert(i + 1, p);
        put(sh, "hull with an on-edge vertex", &enc(&w), [false, true, false, true]);
    }
}

/// graham_hull(.., true): documented as a (possibly non-strict) CCW convex ring through the points on the hull
fn judge_graham_on<T: Sc>(sh: &mut Shard, cx: &Cx<T>, ring: &[Coord<T>]) {
    let inp = cx.inp;
    // input-defined split: with a repeated input coordinate the scan is known to derail (REPORT.md, D3)
    let site = if inp.dups > 0 { "graham_hull(true)[input has a repeated coordinate]" } else { "graham_hull(true)" };
    let rj = || cx.ring_json(ring);
    if ring.len() > 2 * inp.pts.len() + 8 {
        sh.eval(1);
        cx.viol(sh, "graham_on.vertex_is_input", site, format!("at most {} coordinates (each input coordinate at most once per occurrence)", inp.pts.len() + 1), format!("ring of {} coordinates", ring.len()), rj());
        return;
    }
    sh.eval(1);
    let closed = ring.len() >= 2 && ring[0] == ring[ring.len() - 1];
    if !closed {
        cx.viol(sh, "graham_on.closed", site, "closed ring".into(), format!("{} coordinates", ring.len()), rj());
    }
    let verts = if closed { &ring[..ring.len() - 1] } else { ring };
    sh.eval(1);
    let mut v: Vec<IP> = vec![];
    for c in verts {
        let ok = cx.in_bits.binary_search(&(c.x.bits(), c.y.bits())).is_ok();
        match (ok, c.x.dec(cx.case.sh), c.y.dec(cx.case.sh)) {
            (true, Some(x), Some(y)) => v.push((x, y)),
            _ => {
                cx.viol(sh, "graham_on.vertex_is_input", site, "every vertex is an input coordinate".into(), format!("{:?}", c), rj());
                return;
            }
        }
    }
    // drop consecutive repeats (duplicates of the input are kept by include_on_hull = true)
    let mut w: Vec<IP> = vec![];
    for &p in &v {
        if w.last() != Some(&p) {
            w.push(p);
        }
    }
    while w.len() > 1 && w[0] == w[w.len() - 1] {
        w.pop();
    }
    let m = w.len();
    sh.eval(1);
    if m < 3 {
        cx.viol(sh, "graham_on.convex_ccw", site, ">= 3 distinct vertices".into(), fmt_ips(&v), rj());
    } else {
        for i in 0..m {
            let (a, b, c) = (w[(i + m - 1) % m], w[i], w[(i + 1) % m]);
            let o = orient(a, b, c);
            if o < 0 || (o == 0 && dot3(b, a, c) > 0) {
                cx.viol(sh, "graham_on.convex_ccw", site, "no clockwise turn and no reversal".into(), format!("at {:?} (neighbours {:?}, {:?}) in {}", b, a, c, fmt_ips(&v)), rj());
                break;
            }
        }
    }
    sh.eval(1);
    if m >= 2 {
        'outer: for &p in &inp.set {
            for i in 0..m {
                if orient(w[i], w[(i + 1) % m], p) < 0 {
                    cx.viol(sh, "graham_on.contains", site, "every input coordinate left-of-or-on every edge".into(), format!("input {:?} strictly right of {:?}->{:?}", p, w[i], w[(i + 1) % m]), rj());
                    break 'outer;
                }
            }
        }
    }
    sh.eval(1);
    let mut ws = w.clone();
    ws.sort_unstable();
    ws.dedup();
    let missing: Vec<IP> = inp.refset.iter().filter(|p| ws.binary_search(p).is_err()).cloned().collect();
    if !missing.is_empty() {
        cx.viol(sh, "graham_on.has_extremes", site, format!("all extreme points {}", fmt_ips(&inp.refset)), format!("missing {}", fmt_ips(&missing)), rj());
    }
    // observation only (outside the statement): are all boundary points there?
    if ws.len() < inp.refset.len() + inp.n_on_edge {
        sh.class("observe:graham_hull(true) omits some on-edge input points");
    } else if inp.n_on_edge > 0 {
        sh.class("observe:graham_hull(true) has every on-edge input point");
    }
    if m >= 3 && closed {
        sh.eval(1);
        let ls = LineString::new(ring.to_vec());
        if let Ok(g) = call(|| ls.is_ccw_convex()) {
            let exact_ok = (0..v.len()).all(|i| orient(v[(i + v.len() - 1) % v.len()], v[i], v[(i + 1) % v.len()]) >= 0);
            if g != exact_ok {
                cx.viol(sh, "isconvex.agree", site, format!("is_ccw_convex() == {exact_ok}"), format!("{g}"), rj());
            }
        }
    }
}

// ------------------------------------------------------------------------------------------------
// double-double arithmetic for the rectangle clauses
#[derive(Clone, Copy, Debug)]
struct DD(f64, f64);
#[inline]
fn two_sum(a: f64, b: f64) -> DD {
    let s = a + b;
    let bb = s - a;
    DD(s, (a - (s - bb)) + (b - bb))
}
#[inline]
fn quick_two_sum(a: f64, b: f64) -> DD {
    let s = a + b;
    DD(s, b - (s - a))
}
#[inline]
fn two_prod(a: f64, b: f64) -> DD {
    let p = a * b;
    DD(p, a.mul_add(b, -p))
}
impl DD {
    fn add(self, o: DD) -> DD {
        let s = two_sum(self.0, o.0);
        let t = two_sum(self.1, o.1);
        let v = quick_two_sum(s.0, s.1 + t.0);
        quick_two_sum(v.0, t.1 + v.1)
    }
    fn neg(self) -> DD {
        DD(-self.0, -self.1)
    }
    fn sub(self, o: DD) -> DD {
        self.add(o.neg())
    }
    fn mul(self, o: DD) -> DD {
        let p = two_prod(self.0, o.0);
        quick_two_sum(p.0, p.1 + (self.0 * o.1 + self.1 * o.0))
    }
    fn div(self, o: DD) -> DD {
        let q1 = self.0 / o.0;
        let r = self.sub(o.mul(DD(q1, 0.0)));
        let q2 = r.0 / o.0;
        let r2 = r.sub(o.mul(DD(q2, 0.0)));
        let q3 = r2.0 / o.0;
        quick_two_sum(q1, q2).add(DD(q3, 0.0))
    }
    fn f(self) -> f64 {
        self.0 + self.1
    }
    fn lt(self, o: DD) -> bool {
        self.sub(o).f() < 0.0
    }
    fn abs(self) -> DD {
        if self.f() < 0.0 {
            self.neg()
        } else {
            self
        }
    }
}
/// a - b exactly
#[inline]
fn ddiff(a: f64, b: f64) -> DD {
    two_sum(a, -b)
}
type DP = (DD, DD);
fn dsub(a: (f64, f64), b: (f64, f64)) -> DP {
    (ddiff(a.0, b.0), ddiff(a.1, b.1))
}
fn dcross(u: DP, v: DP) -> DD {
    u.0.mul(v.1).sub(u.1.mul(v.0))
}
fn ddot(u: DP, v: DP) -> DD {
    u.0.mul(v.0).add(u.1.mul(v.1))
}
fn dlen(u: DP) -> f64 {
    ddot(u, u).f().sqrt()
}

/// exact-to-2^-100 area of the smallest enclosing rectangle having a side on a reference hull edge
fn min_rect_area(refh: &[IP]) -> DD {
    let m = refh.len();
    let f = |p: IP| (p.0 as f64, p.1 as f64); // |coordinates| <= 2^53: exact
    let mut best: Option<DD> = None;
    for i in 0..m {
        let (p, q) = (f(refh[i]), f(refh[(i + 1) % m]));
        let d = dsub(q, p);
        let n = (d.1.neg(), d.0);
        let (mut lo1, mut hi1, mut lo2, mut hi2) = (DD(0.0, 0.0), DD(0.0, 0.0), DD(0.0, 0.0), DD(0.0, 0.0));
        for &v in refh {
            let w = dsub(f(v), p);
            let (s1, s2) = (ddot(d, w), ddot(n, w));
            if s1.lt(lo1) {
                lo1 = s1
            }
            if hi1.lt(s1) {
                hi1 = s1
            }
            if s2.lt(lo2) {
                lo2 = s2
            }
            if hi2.lt(s2) {
                hi2 = s2
            }
        }
        let a = hi1.sub(lo1).mul(hi2.sub(lo2)).div(ddot(d, d));
        if best.map_or(true, |b| a.lt(b)) {
            best = Some(a);
        }
    }
    best.unwrap()
}

fn judge_mrr<T: Sc>(sh: &mut Shard, cx: &Cx<T>, res: Result<Option<Polygon<T>>, String>) {
    let site = "minimum_rotated_rect";
    let inp = cx.inp;
    let tn = T::NAME;
    sh.eval(1);
    let poly = match res {
        Err(p) => {
            cx.viol(sh, "mrr.panic", site, "no panic".into(), format!("{p} at {}", last_panic_loc()), json!(null));
            return;
        }
        Ok(None) => {
            cx.viol(sh, "mrr.some", site, "Some(rectangle) for input with 3 non-collinear coordinates".into(), "None".into(), json!(null));
            return;
        }
        Ok(Some(p)) => p,
    };
    let ring = &poly.exterior().0;
    let rj = json!(ring.iter().map(|c| json!([c.x.as_f64(), c.y.as_f64()])).collect::<Vec<_>>());
    let s = 2f64.powi(-cx.case.sh);
    // preimages of the rectangle corners in integer units (exact: scaling by a power of two)
    let r: Vec<(f64, f64)> = ring.iter().map(|c| (c.x.as_f64() * s, c.y.as_f64() * s)).collect();
    let e_abs = inp.set.iter().map(|p| p.0.unsigned_abs().max(p.1.unsigned_abs())).max().unwrap_or(1).max(1) as f64;
    let unit = T::U * e_abs;
    // rectangle: 5 coordinates, closed, finite, no interiors, four right angles
    sh.eval(1);
    let shape_ok = r.len() == 5 && r[0] == r[4] && r.iter().all(|c| c.0.is_finite() && c.1.is_finite()) && poly.interiors().is_empty();
    if !shape_ok {
        cx.viol(sh, "mrr.rectangle", site, "closed ring of 5 finite coordinates, no interiors".into(), format!("{} coordinates", r.len()), rj);
        return;
    }
    let e: Vec<DP> = (0..4).map(|i| dsub(r[i + 1], r[i])).collect();
    let len: Vec<f64> = e.iter().map(|&x| dlen(x)).collect();
    // a side may legitimately collapse to length 0 when the extent of the input is below the
    // resolution u*E of its coordinates (lattice at offset 2^52); such corners are within tolerance
    let degenerate = len.iter().any(|&l| !(l > 0.0));
    if degenerate {
        sh.class("mrr:rectangle with a zero-length side (extent below u*E)");
    }
    let mut dev = 0f64;
    for i in 0..4 {
        let j = (i + 1) % 4;
        let l = len[i].max(len[j]);
        if l > 0.0 {
            dev = dev.max(ddot(e[i], e[j]).f().abs() / l);
        }
    }
    sh.maximum(&format!("mrr.right_angle_dev/(u*E):{tn}"), dev / unit);
    if dev > K_ANG * unit {
        cx.viol(sh, "mrr.rectangle", site, format!("four right angles: corner offset <= {K_ANG}*u*E = {:e}", K_ANG * unit), format!("{:e} ({} u*E)", dev, dev / unit), rj);
        return;
    }
    // signed area (shoelace about r[0])
    let a2 = dcross(dsub(r[1], r[0]), dsub(r[2], r[0])).add(dcross(dsub(r[2], r[0]), dsub(r[3], r[0])));
    let sgn = if a2.f() < 0.0 { -1.0 } else { 1.0 };
    let area = DD(a2.0 * 0.5, a2.1 * 0.5).abs();
    // containment of every input coordinate (the extreme points suffice for a convex region, all are tested when few)
    sh.eval(1);
    let pts: &[IP] = if inp.set.len() <= 64 { &inp.set } else { &inp.refh };
    let mut out = 0f64;
    let mut worst = (0i64, 0i64);
    // frame of the longest side, used when a side has collapsed
    let kmax = (0..4).max_by(|&a, &b| len[a].partial_cmp(&len[b]).unwrap()).unwrap();
    let frame = |p: (f64, f64)| -> (f64, f64) {
        let w = dsub(p, r[0]);
        if len[kmax] > 0.0 {
            (ddot(e[kmax], w).f() / len[kmax], dcross(e[kmax], w).f() / len[kmax])
        } else {
            (dlen(w), 0.0)
        }
    };
    let corners: Vec<(f64, f64)> = (0..4).map(|i| frame(r[i])).collect();
    let (s0, s1) = (corners.iter().map(|c| c.0).fold(f64::INFINITY, f64::min), corners.iter().map(|c| c.0).fold(f64::NEG_INFINITY, f64::max));
    let (t0, t1) = (corners.iter().map(|c| c.1).fold(f64::INFINITY, f64::min), corners.iter().map(|c| c.1).fold(f64::NEG_INFINITY, f64::max));
    for &p in pts {
        let pf = (p.0 as f64, p.1 as f64);
        if degenerate {
            let (a, b) = frame(pf);
            let d = (s0 - a).max(a - s1).max(t0 - b).max(b - t1);
            if d > out {
                out = d;
                worst = p;
            }
        } else {
            for i in 0..4 {
                let d = -sgn * dcross(e[i], dsub(pf, r[i])).f() / len[i];
                if d > out {
                    out = d;
                    worst = p;
                }
            }
        }
    }
    sh.maximum(&format!("mrr.outside/(u*E):{tn}"), out / unit);
    if out > K_IN * unit {
        // known finding (minimum_rotated_rect rotates about the hull's CENTROID): for a hull thinner than 2^-30 of its
        // length the centroid is noise far from the input, and rotating about a far point amplifies the rounding of the
        // angle. Attributed only to such hulls and only up to 2^20*u*E; anything larger, or on a hull with body, is not it.
        let h = &inp.refh;
        let thin = h.len() >= 3 && {
            let o = h[0];
            let a2: i128 = (1..h.len() - 1).map(|i| (h[i].0 - o.0) as i128 * (h[i + 1].1 - o.1) as i128 - (h[i].1 - o.1) as i128 * (h[i + 1].0 - o.0) as i128).sum::<i128>().abs();
            let ext = h.iter().map(|p| ((p.0 - o.0) as f64).hypot((p.1 - o.1) as f64)).fold(0.0, f64::max);
            (a2 as f64) * 1073741824.0 < ext * ext
        };
        let known = thin && out <= 1048576.0 * unit;
        let site_k = if known { "minimum_rotated_rect(thin hull)" } else { site };
        if known {
            KNOWN_MRR.with(|k| k.set(true));
        }
        cx.viol(sh, "mrr.contains", site_k, format!("every input coordinate within {K_IN}*u*E = {:e} of the rectangle", K_IN * unit), format!("{:?} is outside by {:e} ({} u*E)", worst, out, out / unit), rj.clone());
        KNOWN_MRR.with(|k| k.set(false));
    }
    // area against the axis-aligned bounding rectangle and against the true minimum
    let (x0, x1) = (inp.set.iter().map(|p| p.0).min().unwrap(), inp.set.iter().map(|p| p.0).max().unwrap());
    let (y0, y1) = (inp.set.iter().map(|p| p.1).min().unwrap(), inp.set.iter().map(|p| p.1).max().unwrap());
    let (w, h) = ((x1 - x0) as f64, (y1 - y0) as f64);
    let aabb = two_prod(w, h);
    let aunit = unit * (w + h);
    sh.eval(1);
    let ex = area.sub(aabb).f();
    sh.maximum(&format!("mrr.area_excess_aabb/(u*E*(W+H)):{tn}"), ex / aunit);
    if ex > K_AREA * aunit {
        cx.viol(sh, "mrr.area_le_aabb", site, format!("area <= bounding-rectangle area {:e} + {K_AREA}*u*E*(W+H) = {:e}", aabb.f(), K_AREA * aunit), format!("{:e} (excess {:e} = {} u*E*(W+H))", area.f(), ex, ex / aunit), rj.clone());
    }
    sh.eval(1);
    let amin = min_rect_area(&inp.refh);
    let ex = area.sub(amin).f();
    sh.maximum(&format!("mrr.area_excess_min/(u*E*(W+H)):{tn}"), ex / aunit);
    if ex > K_AREA * aunit {
        cx.viol(sh, "mrr.area_minimal", site, format!("area <= smallest enclosing rectangle area {:e} + {:e}", amin.f(), K_AREA * aunit), format!("{:e} (excess {:e} = {} u*E*(W+H))", area.f(), ex, ex / aunit), rj);
    }
    if amin.f() < aabb.f() {
        sh.class("mrr:min<aabb");
    } else {
        sh.class("mrr:min==aabb");
    }
}

// ------------------------------------------------------------------------------------------------
// one case
fn to_coords<T: Sc>(pts: &[IP], sh: i32) -> Vec<Coord<T>> {
    pts.iter().map(|p| Coord { x: T::enc(p.0, sh), y: T::enc(p.1, sh) }).collect()
}

fn run_case<T: Sc>(sh: &mut Shard, case: &Case, verbose: bool) {
    let inp = Inp::new(&case.pts);
    let cs: Vec<Coord<T>> = to_coords(&case.pts, case.sh);
    // the encoding must be exact, otherwise the generator left the domain of the scalar type
    for (c, p) in cs.iter().zip(&case.pts) {
        if c.x.dec(case.sh) != Some(p.0) || c.y.dec(case.sh) != Some(p.1) {
            sh.inconclusive("generator: coordinate not exactly representable in the scalar type");
            return;
        }
    }
    let mut in_bits: Vec<(u64, u64)> = cs.iter().map(|c| (c.x.bits(), c.y.bits())).collect();
    in_bits.sort_unstable();
    in_bits.dedup();
    // Numeric regime (floats).  With Dx, Dy the coordinate extents of the input (integer preimages):
    //  * Dx^2 + Dy^2 <= 1/(2u) = 2^52 (f64) / 2^23 (f32): every difference, product and sum geo forms
    //    from coordinate differences is an integer (times 4^sh) below 1/(2u) -> all arithmetic exact;
    //  * else, max(Dx, Dy) <= 1/u = 2^53 / 2^24: differences are exact, products round;
    //  * else: even coordinate differences round.
    let regime: &'static str = if T::FLOAT && !inp.set.is_empty() {
        let dx = (inp.set.iter().map(|p| p.0).max().unwrap() - inp.set.iter().map(|p| p.0).min().unwrap()) as i128;
        let dy = (inp.set.iter().map(|p| p.1).max().unwrap() - inp.set.iter().map(|p| p.1).min().unwrap()) as i128;
        if (dx * dx + dy * dy) as f64 <= 0.5 / T::U {
            ""
        } else if (dx.max(dy) as f64) <= 1.0 / T::U {
            "[float products round]"
        } else {
            "[float differences round]"
        }
    } else {
        ""
    };
    if T::FLOAT {
        sh.class(match regime {
            "" => "regime:float arithmetic exact",
            "[float products round]" => "regime:float products round, differences exact",
            _ => "regime:float differences round",
        });
    }
    let cx: Cx<T> = Cx { case, inp: &inp, in_bits, regime, verbose, emu_quick: Default::default(), emu_hull: Default::default(), _t: std::marker::PhantomData };
    let dom = inp.in_domain();
    if verbose {
        println!("scalar {} container {} sh {} n={} distinct={} in-domain={}", T::NAME, case.cont, case.sh, case.pts.len(), inp.set.len(), dom);
        println!("input        {}", fmt_ips(&case.pts));
        println!("reference    {}", fmt_ips(&inp.refh));
    }
    // bookkeeping
    sh.class(&format!("stratum:{}", case.stratum));
    sh.class(&format!("scalar:{}", T::NAME));
    if dom {
        sh.class("domain:judged");
        if inp.dups > 0 {
            sh.class("input:duplicates");
        }
        if inp.n_on_edge > 0 {
            sh.class("input:points on hull edges");
        }
        if inp.n_inside > 0 {
            sh.class("input:interior points");
        }
        sh.class(match inp.refh.len() {
            3 => "hull:3",
            4 => "hull:4",
            5..=8 => "hull:5-8",
            9..=16 => "hull:9-16",
            _ => "hull:17+",
        });
        if case.pts.len() < 4 {
            sh.class("path:trivial_hull (<4 coordinates)");
        }
        if inp.set.len() >= 4 && (inp.dups > 0 || inp.n_on_edge > 0 || inp.n_inside > 0) {
            sh.nontrivial(case.digest());
        }
    } else {
        sh.class(match inp.set.len() {
            0 => "domain:observe-only:empty",
            1 => "domain:observe-only:one distinct coordinate",
            2 => "domain:observe-only:two distinct coordinates",
            _ => "domain:observe-only:all collinear",
        });
    }
    let observe = |sh: &mut Shard, name: &str, ring: &[Coord<T>]| {
        let closed = ring.len() >= 2 && ring[0] == ring[ring.len() - 1];
        let kind = match inp.set.len() {
            0 => "empty",
            1 => "one distinct coordinate",
            2 => "two distinct coordinates",
            _ => "all collinear",
        };
        let path = if case.pts.len() < 4 { "<4 coords" } else { ">=4 coords" };
        if name == "graham_hull(true)" {
            sh.class(&format!("observe:{name}:{kind}:{path} -> {}", if closed { "closed ring" } else { "ring not closed" }));
        } else {
            sh.class(&format!("observe:{name}:{kind}:{path} -> {} coords{}", ring.len(), if closed { ", closed" } else { ", not closed" }));
        }
    };

    // all geo calls of the case, under the hang watchdog (see `watch`)
    watch::enter(case);
    let outs: Outs<T> = geo_calls::<T>(&cs, case.cont, case.cseed, case.full);
    watch::leave();
    if !regime.is_empty() {
        let same = |a: &[Coord<T>], b: &[Coord<T>]| a.len() == b.len() && a.iter().zip(b).all(|(p, q)| p.x.bits() == q.x.bits() && p.y.bits() == q.y.bits());
        if let Ok(ring) = &outs.quick {
            cx.emu_quick.set(emu::quick_hull(&cs, case.sh).map(|e| same(&e, ring)));
        }
        if let (Some(Ok(poly)), Some(input)) = (&outs.hull, &outs.hull_input) {
            cx.emu_hull.set(emu::quick_hull(input, case.sh).map(|e| same(&e, &poly.exterior().0)));
        }
    }
    // quick_hull
    let q = outs.quick;
    let mut qset = None;
    match &q {
        Ok(ring) => {
            if verbose {
                println!("quick_hull   {}", cx.ring_json(ring));
            }
            if dom {
                qset = judge_strict(sh, &cx, "quick_hull", ring);
            } else {
                observe(sh, "quick_hull", ring);
            }
        }
        Err(p) => {
            sh.eval(1);
            cx.viol(sh, "hull.panic", "quick_hull", "no panic".into(), p.clone(), json!(null));
        }
    }
    // graham_hull(false)
    let mut gset = None;
    match &outs.graham {
        Ok(ring) => {
            if verbose {
                println!("graham(false) {}", cx.ring_json(ring));
            }
            if dom {
                gset = judge_strict(sh, &cx, "graham_hull(false)", ring);
            } else {
                observe(sh, "graham_hull(false)", ring);
            }
        }
        Err(p) => {
            sh.eval(1);
            cx.viol(sh, "hull.panic", "graham_hull(false)", "no panic".into(), p.clone(), json!(null));
        }
    }
    // the two entry points give the same vertex set
    if dom {
        if let (Some(a), Some(b)) = (&qset, &gset) {
            sh.eval(1);
            if a != b {
                cx.viol(sh, "hull.entry_points_agree", "quick_hull~graham_hull(false)", format!("equal vertex sets; graham_hull(false) = {}", fmt_ips(b)), format!("quick_hull = {}", fmt_ips(a)), json!(null));
            }
        }
    }
    if !case.full {
        return;
    }
    if dom {
        judge_isconvex_ref(sh, &cx);
    }
    // graham_hull(true)
    match outs.graham_on.expect("full case") {
        Ok(ring) => {
            if verbose {
                println!("graham(true) {}", cx.ring_json(&ring));
            }
            if dom {
                judge_graham_on(sh, &cx, &ring);
            } else {
                observe(sh, "graham_hull(true)", &ring);
            }
        }
        Err(p) => {
            sh.eval(1);
            cx.viol(sh, "hull.panic", "graham_hull(true)", "no panic".into(), p, json!(null));
        }
    }
    // the trait, through a container
    sh.class(&format!("container:{}", case.cont));
    match outs.hull.expect("full case") {
        Ok(poly) => {
            if verbose {
                println!("convex_hull  {}", cx.ring_json(&poly.exterior().0));
            }
            if dom {
                sh.eval(1);
                if !poly.interiors().is_empty() {
                    cx.viol(sh, "hull.no_interiors", "convex_hull", "no interior rings".into(), format!("{} interior rings", poly.interiors().len()), json!(null));
                }
                judge_strict(sh, &cx, "convex_hull", &poly.exterior().0);
            } else {
                observe(sh, "convex_hull", &poly.exterior().0);
            }
        }
        Err(p) => {
            sh.eval(1);
            cx.viol(sh, "hull.panic", "convex_hull", "no panic".into(), p, json!(null));
        }
    }
    // minimum_rotated_rect (float scalars)
    if let Some(res) = outs.mrr {
        // domain of the tolerance clauses: the centroid / area intermediates are cubic in the
        // coordinates; beyond 2^36 they overflow f32 (2^128) and no u*E bound can be demanded
        let emax = cs.iter().map(|c| c.x.as_f64().abs().max(c.y.as_f64().abs())).fold(0.0, f64::max);
        if dom && T::NAME == "f32" && emax > 68719476736.0 {
            sh.class("mrr:observe-only:f32 magnitude > 2^36 (cubic intermediates overflow)");
            if let Err(p) = res {
                sh.eval(1);
                cx.viol(sh, "mrr.panic", "minimum_rotated_rect", "no panic".into(), p, json!(null));
            }
        } else if dom {
            if verbose {
                println!("minimum_rotated_rect {:?}", res);
            }
            judge_mrr(sh, &cx, res);
        } else {
            match res {
                Ok(o) => sh.class(&format!("observe:minimum_rotated_rect:distinct={} -> {}", inp.set.len().min(3), if o.is_some() { "Some" } else { "None" })),
                Err(p) => {
                    sh.eval(1);
                    cx.viol(sh, "mrr.panic", "minimum_rotated_rect", "no panic".into(), p, json!(null));
                }
            }
        }
    }
    sh.sample(|| json!({"case": case.json(), "reference_hull": fmt_ips(&inp.refh), "quick_hull": q.as_ref().ok().map(|r| cx.ring_json(r))}));
}

// ------------------------------------------------------------------------------------------------
// the geo calls of one case
pub struct Outs<T: Sc> {
    quick: Result<Vec<Coord<T>>, String>,
    graham: Result<Vec<Coord<T>>, String>,
    graham_on: Option<Result<Vec<Coord<T>>, String>>,
    hull: Option<Result<Polygon<T>, String>>,
    /// the coordinate list convex_hull hands to quick_hull (the container's exterior coordinates, in traversal order)
    hull_input: Option<Vec<Coord<T>>>,
    mrr: Option<Result<Option<Polygon<T>>, String>>,
}
fn callp<R>(f: impl FnOnce() -> R) -> Result<R, String> {
    call(f).map_err(|p| format!("{p} at {}", last_panic_loc()))
}
fn geo_calls<T: Sc>(cs: &[Coord<T>], cont: &'static str, cseed: u64, full: bool) -> Outs<T> {
    let mut v = cs.to_vec();
    let quick = callp(|| quick_hull(&mut v).0);
    let mut v = cs.to_vec();
    let graham = callp(|| graham_hull(&mut v, false).0);
    if !full {
        return Outs { quick, graham, graham_on: None, hull: None, hull_input: None, mrr: None };
    }
    let mut v = cs.to_vec();
    let graham_on = Some(callp(|| graham_hull(&mut v, true).0));
    let c = build::<T>(cont, cs, cseed);
    let hull = Some(callp(|| with_cont!(&c, x => x.convex_hull())));
    let hull_input = call(|| {
        use geo::CoordsIter;
        with_cont!(&c, x => x.exterior_coords_iter().collect::<Vec<Coord<T>>>())
    })
    .ok();
    let mrr = T::mrr(&c);
    Outs { quick, graham, graham_on, hull, hull_input, mrr }
}

/// Hang watchdog.  A geo call that never returns (or blows up exponentially) would take the whole
/// shard down and lose every observation made so far; the driver would only see a timeout.  The
/// monitor thread brackets the geo calls of each case with `enter`/`leave`.  A watchdog thread looks
/// at the state four times a second; when one case has been inside geo for HANG_SECS it takes the
/// Shard over by compare-and-swap (IN_GEO -> TAKEN), records `hull.hang` with the case, writes the
/// shard result and exits the process.  Ownership protocol: the monitor thread touches the Shard
/// only outside IN_GEO, and `leave` parks forever if the swap IN_GEO -> IDLE fails, so after a
/// successful take-over the watchdog is the only thread using the Shard (release/acquire on STATE).
mod watch {
    use super::Case;
    use crate::report::{Ctx, Shard};
    use serde_json::json;
    use std::sync::atomic::{AtomicPtr, AtomicU64, AtomicU8, Ordering::*};
    use std::sync::Mutex;
    pub const HANG_SECS: u64 = 10;
    const IDLE: u8 = 0;
    const IN_GEO: u8 = 1;
    const TAKEN: u8 = 2;
    const OFF: u8 = 3;
    static STATE: AtomicU8 = AtomicU8::new(OFF);
    static STARTED: std::sync::atomic::AtomicBool = std::sync::atomic::AtomicBool::new(false);
    static EPOCH: AtomicU64 = AtomicU64::new(0);
    static SHARD: AtomicPtr<Shard> = AtomicPtr::new(std::ptr::null_mut());
    static CTX: AtomicPtr<Ctx> = AtomicPtr::new(std::ptr::null_mut());
    static CUR: Mutex<Option<Case>> = Mutex::new(None);

    /// `ctx` = None in replay mode: a hang is printed and the process exits with status 1
    pub fn install(sh: &mut Shard, ctx: Option<&Ctx>) {
        SHARD.store(sh as *mut Shard, SeqCst);
        CTX.store(ctx.map_or(std::ptr::null_mut(), |c| c as *const Ctx as *mut Ctx), SeqCst);
        STATE.store(IDLE, SeqCst);
        if STARTED.swap(true, SeqCst) {
            return; // the watchdog thread is already polling
        }
        std::thread::spawn(|| {
            let (mut seen, mut since) = (u64::MAX, crate::report::cpu_ms()); // CPU time burnt, not wall-clock
            loop {
                std::thread::sleep(std::time::Duration::from_millis(250));
                let st = STATE.load(Acquire);
                if st == OFF || st == TAKEN {
                    // OFF: nothing to guard at the moment, keep polling (the minimiser re-arms)
                    seen = u64::MAX;
                    if st == TAKEN {
                        return;
                    }
                    continue;
                }
                let e = EPOCH.load(Acquire);
                if st != IN_GEO || e != seen {
                    seen = e;
                    since = crate::report::cpu_ms();
                    continue;
                }
                if crate::report::cpu_ms().saturating_sub(since) < HANG_SECS * 1000 {
                    continue;
                }
                if STATE.compare_exchange(IN_GEO, TAKEN, AcqRel, Acquire).is_err() {
                    continue;
                }
                // the Shard is ours now
                let sh: &mut Shard = unsafe { &mut *SHARD.load(SeqCst) };
                let case = CUR.lock().unwrap().clone();
                let mut d = case.map(|c| c.json()).unwrap_or(json!({}));
                if let Some(m) = d.as_object_mut() {
                    m.insert("property".into(), json!("C08"));
                    m.insert("check".into(), json!("hull.hang"));
                    m.insert("expected".into(), json!("quick_hull / graham_hull / convex_hull / minimum_rotated_rect return (a case takes well under 50 ms)"));
                    m.insert("got".into(), json!(format!("no return within {HANG_SECS} s of CPU time; shard stopped")));
                }
                sh.eval(1);
                sh.violation("hull.hang|geo call|-", d);
                sh.notes.insert("aborted".into(), json!(format!("a geo call did not return within {HANG_SECS} s; the shard stopped after {} cases", sh.cases)));
                let ctx = CTX.load(SeqCst);
                if ctx.is_null() {
                    println!("  VIOLATION hull.hang: no return within {HANG_SECS} s");
                    println!("replay: evaluations={} violations={}", sh.evaluations, sh.violation_count);
                    std::process::exit(1);
                }
                sh.write(unsafe { &*ctx });
                std::process::exit(0);
            }
        });
    }
    pub fn uninstall() {
        // only succeeds outside IN_GEO/TAKEN; after a take-over the process is about to exit anyway
        let _ = STATE.compare_exchange(IDLE, OFF, AcqRel, Acquire);
    }
    #[inline]
    pub fn enter(case: &Case) {
        if STATE.load(Relaxed) == OFF {
            return;
        }
        *CUR.lock().unwrap() = Some(case.clone());
        EPOCH.fetch_add(1, Release);
        STATE.store(IN_GEO, Release);
    }
    #[inline]
    pub fn leave() {
        if STATE.load(Relaxed) == OFF {
            return;
        }
        if STATE.compare_exchange(IN_GEO, IDLE, AcqRel, Acquire).is_err() {
            loop {
                std::thread::park(); // the watchdog owns the Shard and is about to exit the process
            }
        }
    }
}

fn dispatch(sh: &mut Shard, case: &Case, verbose: bool) {
    match case.scalar {
        0 => run_case::<f64>(sh, case, verbose),
        1 => run_case::<f32>(sh, case, verbose),
        2 => run_case::<i32>(sh, case, verbose),
        _ => run_case::<i64>(sh, case, verbose),
    }
}

// ------------------------------------------------------------------------------------------------
// workload
fn gcd(a: i64, b: i64) -> i64 {
    if b == 0 {
        a.abs()
    } else {
        gcd(b, a % b)
    }
}
/// half-extent available for "big" strata: all pairwise differences d must keep 2*d^2 inside the
/// scalar type (ints) / every coordinate exactly representable (floats)
fn big_range(scalar: usize) -> i64 {
    match scalar {
        0 => 1 << 51,       // f64: |coordinate| <= 2^51, differences <= 2^52
        1 => 1 << 23,       // f32: |coordinate| <= 2^23, differences <= 2^24 (exact)
        2 => 16383,         // i32: d <= 32766, 2 d^2 < 2^31
        _ => (1 << 30) - 1, // i64: d < 2^31, 2 d^2 < 2^63
    }
}
fn offsets(scalar: usize) -> &'static [i64] {
    match scalar {
        0 => &[0, 0, 0, 1000, -1000, 100_000_000, -100_000_000, 1 << 40, -(1 << 40), (1 << 52) - 300, -(1 << 52) + 300],
        1 => &[0, 0, 0, 1000, -1000, 1 << 20, -(1 << 20), (1 << 24) - 300, -(1 << 24) + 300],
        2 => &[0, 0, 0, 1000, -1000, 1 << 20, -(1 << 20), i32::MAX as i64 - 300, i32::MIN as i64 + 300],
        _ => &[0, 0, 0, 1000, -1000, 1 << 40, -(1 << 40), (1 << 62) - 300, -(1 << 62) + 300],
    }
}

fn lattice_random(r: &mut Rng) -> Vec<IP> {
    let g = r.range(3, 8);
    let n = if r.chance(1, 2) { r.range(4, 12) } else { r.range(4, 40) };
    (0..n).map(|_| (r.range(0, g - 1), r.range(0, g - 1))).collect()
}
fn lattice_lines(r: &mut Rng) -> Vec<IP> {
    let g = r.range(4, 8);
    let mut out = vec![];
    for _ in 0..r.range(2, 4) {
        let p = (r.range(0, g - 1), r.range(0, g - 1));
        let q = (r.range(0, g - 1), r.range(0, g - 1));
        if p == q {
            out.push(p);
            continue;
        }
        let k = gcd(q.0 - p.0, q.1 - p.1);
        let d = ((q.0 - p.0) / k, (q.1 - p.1) / k);
        let on: Vec<IP> = (-g..=g).map(|t| (p.0 + t * d.0, p.1 + t * d.1)).filter(|c| c.0 >= 0 && c.0 < g && c.1 >= 0 && c.1 < g).collect();
        for _ in 0..r.range(2, 6) {
            out.push(*r.pick(&on));
        }
    }
    for _ in 0..r.range(0, 3) {
        out.push((r.range(0, g - 1), r.range(0, g - 1)));
    }
    r.shuffle(&mut out);
    out
}
/// rows parallel to a chord: several points equally far from it
fn lattice_rows(r: &mut Rng) -> Vec<IP> {
    let g = r.range(4, 8);
    let y0 = r.range(0, g - 1);
    let mut out = vec![(0, y0), (g - 1, y0)];
    for _ in 0..r.range(1, 3) {
        let y = r.range(0, g - 1);
        let (lo, hi) = if r.chance(1, 2) { (1, g - 2) } else { (0, g - 1) };
        for x in lo..=hi {
            if r.chance(3, 4) {
                out.push((x, y));
            }
        }
    }
    for _ in 0..r.range(0, 4) {
        let p = *r.pick(&out);
        out.push(if r.chance(1, 2) { p } else { (r.range(0, g - 1), r.range(0, g - 1)) });
    }
    r.shuffle(&mut out);
    out
}
/// the boundary of a convex lattice polygon with many lattice points on its edges, plus interior points
fn on_edges(r: &mut Rng) -> Vec<IP> {
    let g = r.range(3, 8);
    let s = r.range(1, 4);
    let seed: Vec<IP> = (0..r.range(3, 7)).map(|_| (r.range(0, g - 1) * s, r.range(0, g - 1) * s)).collect();
    let h = ref_hull(&seed);
    let mut out = seed.clone();
    let m = h.len();
    if m >= 2 {
        for i in 0..m {
            let (p, q) = (h[i], h[(i + 1) % m]);
            let k = gcd(q.0 - p.0, q.1 - p.1);
            for t in 1..k {
                if r.chance(2, 3) {
                    out.push((p.0 + (q.0 - p.0) / k * t, p.1 + (q.1 - p.1) / k * t));
                }
            }
        }
    }
    for _ in 0..r.range(0, 6) {
        let p = *r.pick(&out);
        out.push(if r.chance(1, 3) { p } else { (r.range(0, (g - 1) * s), r.range(0, (g - 1) * s)) });
    }
    r.shuffle(&mut out);
    out
}
fn tiny(r: &mut Rng) -> Vec<IP> {
    let g = r.range(2, 3);
    (0..r.range(3, 5)).map(|_| (r.range(0, g - 1), r.range(0, g - 1))).collect()
}
fn rect_corners(r: &mut Rng) -> Vec<IP> {
    let g = r.range(2, 8);
    let (a, b) = ((r.range(0, g - 1), r.range(0, g - 1)), (r.range(0, g - 1), r.range(0, g - 1)));
    let (x0, x1, y0, y1) = (a.0.min(b.0), a.0.max(b.0), a.1.min(b.1), a.1.max(b.1));
    vec![(x1, y0), (x1, y1), (x0, y1), (x0, y0)]
}
fn degenerate(r: &mut Rng) -> Vec<IP> {
    let g = r.range(2, 8);
    match r.below(6) {
        0 => vec![],
        1 => (0..r.range(1, 3)).map(|_| (r.range(0, g - 1), r.range(0, g - 1))).collect(),
        2 => {
            let p = (r.range(0, g - 1), r.range(0, g - 1));
            vec![p; r.range(1, 8) as usize]
        }
        _ => {
            // all on one line, with repeats
            let p = (r.range(0, g - 1), r.range(0, g - 1));
            let d = *r.pick(&[(1i64, 0i64), (0, 1), (1, 1), (1, -1), (2, 1), (1, 2), (-1, 2), (3, -2)]);
            (0..r.range(2, 12)).map(|_| r.range(-6, 6)).map(|t| (p.0 + t * d.0, p.1 + t * d.1)).collect()
        }
    }
}
fn big_random(r: &mut Rng, rr: i64) -> Vec<IP> {
    let n = r.range(4, 40);
    let mut out: Vec<IP> = vec![];
    for _ in 0..n {
        if !out.is_empty() && r.chance(1, 6) {
            let p = *r.pick(&out);
            out.push(p);
        } else {
            out.push((r.range(-rr, rr), r.range(-rr, rr)));
        }
    }
    out
}
/// many points within a few units of a long oblique chord: the f64/f32 dot products of the
/// farthest-point search (|p_orth| * distance, computed as a difference of two huge products) round
fn near_chord(r: &mut Rng, rr: i64) -> Vec<IP> {
    let a = (r.range(-rr, -rr / 2), r.range(-rr / 2, rr / 2));
    let d = (r.range(rr, rr + rr / 2), r.range(-rr / 2, rr / 2));
    let b = (a.0 + d.0, a.1 + d.1);
    let j = *r.pick(&[0i64, 1, 1, 2, 8]);
    let mut out = vec![a, b];
    for _ in 0..r.range(3, 30) {
        let t = r.below(1 << 30) as i128;
        let x = a.0 + ((d.0 as i128 * t) >> 30) as i64 + r.range(-j, j + 1);
        let y = a.1 + ((d.1 as i128 * t) >> 30) as i64 + r.range(-j, j + 1);
        out.push((x.clamp(-rr, rr), y.clamp(-rr, rr)));
    }
    r.shuffle(&mut out);
    out
}
fn ext_gcd(a: i128, b: i128) -> (i128, i128, i128) {
    if b == 0 {
        (a, 1, 0)
    } else {
        let (g, x, y) = ext_gcd(b, a % b);
        (g, y, x - (a / b) * y)
    }
}
/// The thinnest possible cap over a long chord a-b: lattice points whose orientation determinant
/// against the chord is a small integer c (distance c/|ab|), one per c, found with the extended
/// Euclidean algorithm.  The true farthest point is the one with the largest c; the dot products
/// of the farthest-point search are differences of two products ~ |ab|^2 and round once
/// |ab|^2 > 1/u, i.e. from coordinates ~ 2^12 (f32) / 2^27 (f64).
fn thin_cap(r: &mut Rng, rr: i64) -> Vec<IP> {
    let (x, y, u, v) = loop {
        let x = r.range(rr / 2, rr) as i128;
        let y = r.range(-rr / 2, rr / 2) as i128;
        let (g, u, v) = ext_gcd(x, y); // x*u + y*v = g
        if g == 1 || g == -1 {
            break (x, y, u * g, v * g);
        }
    };
    // cross((x,y),(px,py)) = x*py - y*px = 1 for (px,py) = (-v, u)
    let (px, py) = (-v, u);
    let n2 = x * x + y * y;
    let mut out: Vec<IP> = vec![(0, 0), (x as i64, y as i64)];
    let cmax = *r.pick(&[3i128, 4, 6, 8, 12, 40]);
    for _ in 0..r.range(2, 10) {
        let mut c = 1 + r.below(cmax as u64) as i128;
        if r.chance(1, 4) {
            c = -c;
        }
        let (qx, qy) = (c * px, c * py);
        let s = (qx * x + qy * y).div_euclid(n2);
        out.push(((qx - s * x) as i64, (qy - s * y) as i64));
    }
    // anywhere inside the range (translation keeps every difference)
    let (mnx, mxx) = (out.iter().map(|p| p.0).min().unwrap(), out.iter().map(|p| p.0).max().unwrap());
    let (mny, mxy) = (out.iter().map(|p| p.1).min().unwrap(), out.iter().map(|p| p.1).max().unwrap());
    let tx = if mxx - mnx < 2 * rr { r.range(-rr - mnx, rr - mxx) } else { 0 };
    let ty = if mxy - mny < 2 * rr { r.range(-rr - mny, rr - mxy) } else { 0 };
    if r.chance(1, 2) {
        for p in out.iter_mut() {
            *p = (p.0 + tx, p.1 + ty);
        }
    }
    r.shuffle(&mut out);
    out
}
/// points rounded from a circle of radius rr (rational parametrisation, no libm), some pulled slightly inside
fn circle(r: &mut Rng, rr: i64, n: i64) -> Vec<IP> {
    let mut out = vec![];
    let q: i128 = 1 << 20;
    for _ in 0..n {
        let p = r.range(-(q as i64), q as i64) as i128;
        let den = q * q + p * p;
        let rad = if r.chance(1, 4) { rr as i128 - r.range(0, 3) as i128 } else { rr as i128 };
        let mut x = (rad * (q * q - p * p) / den) as i64;
        let y = (rad * 2 * p * q / den) as i64;
        if r.chance(1, 2) {
            x = -x;
        }
        out.push((x, y));
    }
    out
}
/// several points on one ray from the lexicographically least point, nearly equally far from it
/// (graham_hull sorts collinear points by a rounded squared distance), all other points on one side.
/// `full` = the whole exactly representable integer range of a float type (differences round too).
fn far_ray(r: &mut Rng, rr: i64, full: Option<i64>) -> Vec<IP> {
    let d = *r.pick(&[(1i64, 0i64), (1, 1), (2, 1), (1, 2), (3, 1), (1, -1), (2, -1), (3, 2), (0, 1)]);
    let (head, kmax, lim) = match full {
        Some(f) => {
            let hy = if d.1 > 0 { -f } else if d.1 < 0 { f } else { r.range(-f, f) };
            ((-f, hy), 2 * f / d.0.abs().max(d.1.abs()), f)
        }
        None => ((0, 0), rr / d.0.abs().max(d.1.abs()), rr),
    };
    let at = |k: i64| (head.0 + k * d.0, head.1 + k * d.1);
    let mut out = vec![head];
    for _ in 0..r.range(2, 4) {
        out.push(at(kmax - r.range(0, 5)));
    }
    if r.chance(1, 2) {
        out.push(at(r.range(1, kmax)));
    }
    let side = if d == (0, 1) { -1 } else if r.chance(1, 2) { 1 } else { -1 };
    let (mut tries, mut got) = (0, 0);
    let want = r.range(1, 5);
    while got < want && tries < 400 {
        tries += 1;
        let p = (r.range(head.0, lim), r.range(-lim, lim));
        let o = orient(head, at(1), p);
        if p > head && ((o > 0 && side > 0) || (o < 0 && side < 0)) {
            out.push(p);
            got += 1;
        }
    }
    r.shuffle(&mut out);
    out
}
fn large(r: &mut Rng, thorough: bool, rr: i64) -> Vec<IP> {
    if r.chance(1, 2) {
        // many duplicates and collinear runs; deep partitions and long sorts
        let n = if thorough && r.chance(1, 8) { r.range(2000, 20000) } else { r.range(100, 1000) };
        let g = (*r.pick(&[16i64, 32, 64, 256])).min(rr);
        (0..n).map(|_| (r.range(0, g - 1), r.range(0, g - 1))).collect()
    } else {
        // nearly every point is a hull vertex (the exact containment clause is O(n * hull), so n stays moderate)
        let n = r.range(100, 400);
        circle(r, rr.min(1 << 40), n)
    }
}

/// decimal tenths as f64: the doubles nearest to k/10 are the lattice points round(k/10 * 2^56) * 2^-56 (exact for
/// 0.1 <= |k/10| < 32), so the integer machinery applies with sh = -56. Sets that are collinear in decimal are only
/// NEARLY collinear as doubles, and their differences round: ordinary-looking input on which nothing is exact.
fn decimal_tenths(r: &mut Rng) -> Vec<IP> {
    let enc = |k: i64| ((k as f64 / 10.0) * 72057594037927936.0) as i64; // 2^56
    let n = r.range(4, 8);
    let (c, d) = (r.range(-20, 20), r.range(-3, 3));
    let mut pts = vec![];
    for _ in 0..n {
        let kx = r.range(-30, 30);
        let ky = if r.chance(2, 3) { (c + d * kx).clamp(-300, 300) } else { r.range(-30, 30) };
        pts.push((enc(kx), enc(ky)));
    }
    pts
}

/// Coordinates of very different magnitude in ONE input (floats only): a few far points m*2^k (k = 50..57, |m| <= 3) and
/// a few points within 2^21 of the origin that sit one lattice step beside a line from the origin to a far point. Every
/// coordinate is exactly representable even in f32 (short significands), the exact orientation of each near point is
/// +-2^k*(small integer), and a determinant taken on ROUNDED differences (far minus near needs 55+ bits) loses it.
fn mixed_magnitude(r: &mut Rng) -> Vec<IP> {
    let k = 1i64 << r.range(50, 57);
    let dirs: [(i64, i64); 8] = [(1, 0), (1, 1), (0, 1), (-1, 1), (2, 1), (1, 2), (3, -1), (-1, -2)];
    let (a, b) = *r.pick(&dirs);
    let (c, d) = loop {
        let (c, d) = *r.pick(&dirs);
        if a * d - b * c != 0 {
            break (c, d);
        }
    };
    let mut pts: Vec<IP> = vec![(0, 0), (a * k, b * k), (c * k, d * k)];
    if r.chance(1, 2) {
        pts.push(((a + c) * k / 2 * 2 / 2, (b + d) * k / 2 * 2 / 2));
    }
    for _ in 0..r.range(1, 4) {
        let t = if r.chance(1, 3) { 0 } else { 1i64 << r.range(0, 20) };
        let (ea, eb) = if r.chance(1, 2) { (a, b) } else { (c, d) };
        pts.push((ea * t + r.range(-1, 1), eb * t + r.range(-1, 1)));
    }
    r.shuffle(&mut pts);
    pts
}

pub fn gen_case(r: &mut Rng, thorough: bool) -> Case {
    if r.chance(1, 40) {
        let pts = mixed_magnitude(r);
        let cont = pick_container(r, pts.len());
        let (sw, nx) = (r.chance(1, 2), r.chance(1, 2));
        let pts = pts.into_iter().map(|p| { let p = if sw { (p.1, p.0) } else { p }; if nx { (-p.0, p.1) } else { p } }).collect();
        // (f32: the far coordinates stay below 2^62, so that their products stay inside the range of the type)
        let scalar = if r.chance(1, 2) { 1 } else { 0 };
        let sh = if r.chance(1, 2) { r.range(-30, if scalar == 1 { 3 } else { 30 }) as i32 } else { 0 };
        return Case { scalar, pts, sh, cont, cseed: r.next(), stratum: "mixed-magnitude", full: true };
    }
    if r.chance(1, 12) {
        let pts = decimal_tenths(r);
        let cont = pick_container(r, pts.len());
        return Case { scalar: 0, pts, sh: -56, cont, cseed: r.next(), stratum: "decimal-tenths", full: true };
    }
    let scalar = *r.pick(&[0usize, 0, 0, 0, 1, 1, 2, 2, 3, 3]);
    // magnitude of the "big" strata: a power of two between the point where products start to round
    // (floats) and the largest range without integer overflow / with exact coordinates
    let rr = match scalar {
        0 => 1i64 << r.range(24, 51),
        1 => 1i64 << r.range(10, 23),
        2 => (1i64 << r.range(8, 14)).min(big_range(2)),
        _ => (1i64 << r.range(16, 30)).min(big_range(3)),
    };
    let s = r.below(100);
    let (stratum, mut pts, local): (&'static str, Vec<IP>, bool) = match s {
        0..=24 => ("lattice-random", lattice_random(r), true),
        25..=33 => ("lattice-lines", lattice_lines(r), true),
        34..=42 => ("lattice-rows", lattice_rows(r), true),
        43..=52 => ("lattice-on-edges", on_edges(r), true),
        53..=58 => ("tiny", tiny(r), true),
        59..=61 => ("rect", rect_corners(r), true),
        62..=68 => ("degenerate", degenerate(r), true),
        69..=73 => ("big-random", big_random(r, rr), false),
        74..=79 => ("big-near-chord", near_chord(r, rr), false),
        80..=87 => ("big-thin-cap", thin_cap(r, rr), false),
        88..=91 => {
            let n = r.range(6, 40);
            ("big-circle", circle(r, rr, n), false)
        }
        92..=97 => {
            let full = match scalar {
                0 if r.chance(1, 2) => Some(1i64 << 53),
                1 if r.chance(1, 2) => Some(1i64 << 24),
                _ => None,
            };
            ("big-far-ray", far_ray(r, rr, full), false)
        }
        _ => ("large-n", large(r, thorough, rr), false),
    };
    // symmetries of the lattice (the algorithms treat x and y differently: lexicographic extremes)
    if stratum != "big-far-ray" {
        let (sw, nx, ny) = (r.chance(1, 2), r.chance(1, 2), r.chance(1, 2));
        for p in pts.iter_mut() {
            if sw {
                *p = (p.1, p.0);
            }
            if nx {
                p.0 = -p.0;
            }
            if ny {
                p.1 = -p.1;
            }
        }
    }
    if local {
        let (ox, oy) = (*r.pick(offsets(scalar)), *r.pick(offsets(scalar)));
        for p in pts.iter_mut() {
            *p = (p.0 + ox, p.1 + oy);
        }
    }
    let sh = if scalar < 2 && r.chance(1, 2) { r.range(-30, 30) as i32 } else { 0 };
    let cont = if stratum == "rect" { "Rect" } else { pick_container(r, pts.len()) };
    Case { scalar, pts, sh, cont, cseed: r.next(), stratum, full: true }
}

/// every coordinate sequence of length `len` over a w x h lattice, direct entry points only
fn exhaustive(sh: &mut Shard, w: i64, h: i64, len: u32, scalar: usize) -> u64 {
    let cells: Vec<IP> = (0..w).flat_map(|x| (0..h).map(move |y| (x, y))).collect();
    let c = cells.len() as u64;
    let total = c.pow(len);
    let name: &'static str = "exhaustive";
    for mut code in 0..total {
        let mut pts = Vec::with_capacity(len as usize);
        for _ in 0..len {
            pts.push(cells[(code % c) as usize]);
            code /= c;
        }
        let case = Case { scalar, pts, sh: 0, cont: "MultiPoint", cseed: 0, stratum: name, full: false };
        dispatch(sh, &case, false);
    }
    total
}

/// Smallest witnesses of the defects of the pinned tree (REPORT.md D1-D4), run first on shard 0 of
/// every run: they keep the recorded signatures firing whatever the seed and turn into regression
/// cases once geo is repaired.
const FIXED_WITNESSES: &[(&str, usize, &[IP])] = &[
    ("D1 quick_hull keeps the middle of three equally far points", 0, &[(3, 0), (1, 1), (2, 1), (0, 1), (0, 0)]),
    ("D1 (i32)", 2, &[(3, 0), (1, 1), (2, 1), (0, 1), (0, 0)]),
    ("D2 quick_hull farthest-point dot product rounds (f32, coordinates <= 16067)", 1, &[(10448, 4695), (5303, 2383), (16067, 7220), (10764, 4837), (316, 142), (0, 0)]),
    ("D2 (f64, coordinates <= 2.6e8)", 0, &[(257310705, 133193699), (0, 0), (93191298, 48239321), (109412938, 56636252), (70928109, 36715057)]),
    ("D3 graham_hull orders collinear points by a rounded squared distance (f32)", 1, &[(-16777216, 16777216), (16777216, -16777216), (12222300, 494429), (16777215, -16777215)]),
    ("D3 (f64)", 0, &[(-9007199254740992, 9007199254740992), (9007199254740992, -9007199254740992), (9007199254740991, -9007199254740991), (3861334037556315, 8026765956746431)]),
    ("D4 graham_hull(.., true) never pops below a repeated coordinate", 0, &[(1, 1), (1, 1), (2, 1), (0, 0), (2, 3)]),
];

pub fn run(ctx: &Ctx, sh: &mut Shard) {
    let thorough = ctx.tier == "thorough";
    watch::install(sh, Some(ctx));
    if ctx.shard == 0 && ctx.only.is_none() {
        for (_, scalar, pts) in FIXED_WITNESSES {
            let case = Case { scalar: *scalar, pts: pts.to_vec(), sh: 0, cont: "MultiPoint", cseed: 0, stratum: "fixed-witness", full: true };
            dispatch(sh, &case, false);
        }
        sh.notes.insert("fixed_witnesses".into(), json!(FIXED_WITNESSES.iter().map(|w| w.0).collect::<Vec<_>>()));
    }
    if ctx.shard == 0 && ctx.only.is_none() {
        let mut subs = vec![];
        let mut plan: Vec<(i64, i64, u32, usize)> = vec![(3, 3, 4, 3), (3, 3, 5, 0), (5, 2, 5, 0), (2, 5, 5, 2)];
        if thorough {
            plan.extend([(3, 3, 6, 0), (4, 4, 5, 0), (5, 2, 6, 1)]);
        }
        for (w, h, len, scalar) in plan {
            let n = exhaustive(sh, w, h, len, scalar);
            subs.push(json!({"lattice": format!("{w}x{h}"), "sequence_length": len, "scalar": SCALARS[scalar], "cases": n, "entry_points": "quick_hull, graham_hull(false)", "exhaustive": true}));
        }
        sh.notes.insert("exhaustive_subspaces".into(), json!(subs));
    }
    let mut selfcheck = 0u64;
    for k in ctx.case_indices() {
        if sh.cases >= ctx.budget {
            break;
        }
        ctx.mark_case(k);
        let mut r = Rng::derive(ctx.seed, ctx.shard, k);
        sh.cases += 1;
        let case = gen_case(&mut r, thorough);
        // oracle self-check: monotone chain == Caratheodory definition (harness error if not)
        if k % 8 == 0 {
            let inp = Inp::new(&case.pts);
            if inp.in_domain() && inp.set.len() <= 12 {
                let b = extreme_brute(&inp.set);
                if b != inp.refset {
                    panic!("oracle bug: monotone chain {:?} vs definition {:?} on {:?}", inp.refset, b, case.pts);
                }
                selfcheck += 1;
            }
        }
        dispatch(sh, &case, false);
    }
    watch::uninstall();
    sh.notes.insert("oracle_selfcheck".into(), json!({"cases": selfcheck, "what": "reference hull vertex set == extreme points by the Caratheodory definition (O(n^4))", "mismatches": 0}));
    sh.notes.insert("tolerances".into(), json!({"K_IN": K_IN, "K_ANG": K_ANG, "K_AREA": K_AREA, "unit": "u*E, u = 2^-53 (f64) / 2^-24 (f32), E = max |input coordinate|"}));
}

pub fn replay(v: &Value, sh: &mut Shard) {
    let case = Case::from_json(v);
    watch::install(sh, None);
    dispatch(sh, &case, true);
    watch::uninstall();
}

/// `gvh c08-min <violation.json>`: shrink a recorded witness (drop coordinates, translate to the
/// origin, halve) while the same signature keeps firing; prints the reduced case as replayable JSON.
pub fn minimize(path: &str) {
    let txt = std::fs::read_to_string(path).expect("read violation file");
    let v: Value = serde_json::from_str(&txt).expect("parse");
    let sig = v["sig"].as_str().expect("sig").to_string();
    let mut case = Case::from_json(&v);
    if !CONTS[..8].contains(&case.cont) {
        case.cont = "MultiPoint";
    }
    let fires = |c: &Case| -> bool {
        let mut sh = Shard::new();
        dispatch(&mut sh, c, false);
        sh.viol_sigs.contains_key(&sig)
    };
    if !fires(&case) {
        println!("signature {sig} does not fire on the recorded case");
        return;
    }
    loop {
        let mut changed = false;
        let mut i = 0;
        while i < case.pts.len() {
            let mut c = case.clone();
            c.pts.remove(i);
            if c.pts.len() >= 3 && fires(&c) {
                case = c;
                changed = true;
            } else {
                i += 1;
            }
        }
        let (mx, my) = (case.pts.iter().map(|p| p.0).min().unwrap(), case.pts.iter().map(|p| p.1).min().unwrap());
        for f in [0u8, 1, 2, 3] {
            let mut c = case.clone();
            for p in c.pts.iter_mut() {
                *p = match f {
                    0 => (p.0 - mx, p.1 - my),
                    1 => (p.0 / 2, p.1 / 2),
                    2 => (p.0 / 2, p.1),
                    _ => (p.0, p.1 / 2),
                };
            }
            if f == 0 && c.sh != 0 {
                c.sh = 0;
            }
            if c.pts != case.pts && fires(&c) {
                case = c;
                changed = true;
            }
        }
        if !changed {
            break;
        }
    }
    let mut sh = Shard::new();
    dispatch(&mut sh, &case, true);
    let d = sh.violations.iter().find(|d| d["sig"] == sig.as_str()).unwrap();
    println!("{}", serde_json::to_string(d).unwrap());
}

/// `gvh c08-search <scalar> <log2 range> <tries> [near-chord|thin-cap|far-ray|far-ray-full]`: hunt for
/// witnesses of the rounding defects at a chosen coordinate magnitude; writes the first hits per
/// signature to search_<scalar>_<log2>_<n>.json (replayable, minimisable with c08-min).
pub fn search(scalar: &str, log2r: u32, tries: u64, what: &str) {
    let scalar = SCALARS.iter().position(|s| *s == scalar).unwrap_or(0);
    let mut hits = 0;
    let mut sigs: std::collections::BTreeMap<String, u64> = Default::default();
    for k in 0..tries {
        let mut r = Rng::derive(99, log2r as u64, k);
        let rr = 1i64 << log2r;
        let pts = match what {
            "near-chord" => near_chord(&mut r, rr),
            "thin-cap" => thin_cap(&mut r, rr),
            "far-ray" => far_ray(&mut r, rr, None),
            "far-ray-full" => far_ray(&mut r, rr, Some(rr)),
            _ => {
                if k % 2 == 0 {
                    near_chord(&mut r, rr)
                } else {
                    thin_cap(&mut r, rr)
                }
            }
        };
        let case = Case { scalar, pts, sh: 0, cont: "MultiPoint", cseed: 0, stratum: "search", full: true };
        let mut sh = Shard::new();
        dispatch(&mut sh, &case, false);
        if sh.violation_count > 0 {
            hits += 1;
        }
        for d in &sh.violations {
            let c = sigs.entry(d["sig"].as_str().unwrap().to_string()).or_insert(0);
            *c += 1;
            if *c == 1 {
                let f = format!("/tmp/gvh-c08/search_{}_{}_{}.json", SCALARS[scalar], log2r, sigs.len());
                std::fs::write(&f, serde_json::to_string(d).unwrap()).unwrap();
                println!("{} -> {f}", d["sig"]);
            }
        }
    }
    println!("range 2^{log2r} {what}: {hits} of {tries} inputs violate some clause");
    for (s, n) in sigs {
        println!("  {n} x {s}");
    }
}
