//! C06 — Centroid is the centre of mass of the highest-dimensional part.
//!
//! Clauses (each its own `check` name, see REPORT.md):
//!   none_iff_empty          centroid() is None  <=>  the geometry has no coordinates            (exact)
//!   mass_centre.areal       area-weighted centre of mass of the members of positive area        (tolerance)
//!   mass_centre.lineal      length-weighted mean of segment midpoints of the linear members     (tolerance)
//!   mass_centre.puntal      mean of the points                                                  (tolerance)
//!   zero_area_outline       same comparison, when a zero-area Polygon/Rect/Triangle takes part
//!                           in the dominant (lineal or puntal) part through its outline
//!   enum_vs_concrete        Geometry::X(g).centroid() == Some-lifted g.centroid()               (bit exact)
//!   convex_hull             result inside the exact convex hull of all coordinates              (tolerance)
//!   translation             moves with an exactly representable translation                     (tolerance)
//!   scaling.pow2            moves with scaling by 2^k (tolerance; bit-exactness is observed only)
//!   scaling.int             moves with scaling by a small integer factor                        (tolerance)
//!   panic                   no panic on any input
//!
//! Reference: built on the integer lattice preimage (i128 / Q exact for areal and puntal parts,
//! double-double f64 for the irrational lengths of the lineal part), independent of geo: the
//! ring moments use the Green form  6·A·cx = Σ (x0²+x0·x1+x1²)(y1−y0)  (geo uses Σ (x0+x1)·det),
//! and the two forms are cross-checked against each other on every ring (oracle self-check).
//!
//! Tolerance (lattice units; u = 2^-53):
//!   tol = u · ( KM·(m+2)·M·cond  +  KE·n·E·max(1, shape) )
//!     n     coordinates of the dominant part,  m  weighted contributions (rings / segments / points)
//!     E     local extent of the dominant part (max of x-range, y-range)
//!     M     largest |coordinate| of the dominant part (distance from the origin)
//!     cond  Σ|A_ring| / W  >= 1 (areal; cancellation when holes are subtracted), 1 otherwise
//!     shape E² / W (areal; division by a small area amplifies the moment's rounding), 1 otherwise
//!   Derivation: geo evaluates every ring moment after shifting to the ring's first vertex, so the
//!   moment carries an error <= ~16·n·u·E³, divided by 6·A  =>  n·u·E·(E²/A) (the E term). But the
//!   per-ring / per-segment / per-point centroids are then multiplied by their weights and summed at
//!   ABSOLUTE coordinates: each product and each addition rounds relative to M·W, and the final
//!   division rounds relative to M: (2m+2)·u·M for positive weights, times Σ|A|/W when hole
//!   moments are subtracted (the M term). The M term is unavoidable: the result itself is an f64
//!   near M. A dropped shift costs n·u·M·(M/E)², i.e. (M/E)² ~ 10^14 times the M term at offset 1e8.
use crate::gen;
use crate::ig::*;
use crate::report::*;
use crate::rng::{Fnv, Rng};
use crate::with_geom;
use geo::{Centroid, Point};
use serde_json::{json, Value};
use std::collections::BTreeSet;

const U: f64 = 1.1102230246251565e-16; // 2^-53
pub const KM: f64 = 24.0;
pub const KE: f64 = 32.0;
/// id proposed for the finding "Triangle::unsigned_area is evaluated without a shift" (see REPORT.md)
pub const TRI_CLASS: &str = "triangle_area_no_shift";

trait ToOpt {
    fn opt(self) -> Option<Point<f64>>;
}
impl ToOpt for Point<f64> {
    fn opt(self) -> Option<Point<f64>> {
        Some(self)
    }
}
impl ToOpt for Option<Point<f64>> {
    fn opt(self) -> Option<Point<f64>> {
        self
    }
}

// ------------------------------------------------------------------------------------------
// reference
// ------------------------------------------------------------------------------------------
#[derive(Clone, Debug)]
struct Areal {
    /// twice the net area (> 0)
    w2: i128,
    /// 3 · (twice net area) · centroid, relative to `base`
    gx: i128,
    gy: i128,
    /// Σ |twice ring area| over the rings that enter
    abs2: i128,
    nrings: usize,
    coords: Vec<IP>,
    tri: Option<[IP; 3]>,
}
#[derive(Clone, Copy, Debug)]
struct Pt {
    p: IP,
    /// admissible multiplicity (lo..=hi); lo == hi unless a LineString of k >= 3 coincident coordinates
    lo: u32,
    hi: u32,
}
#[derive(Default)]
struct Parts {
    base: IP,
    areal: Vec<Areal>,
    segs: Vec<(IP, IP)>,
    pts: Vec<Pt>,
    all: Vec<IP>,
    flags: BTreeSet<String>,
    /// a zero-area Polygon / Rect / Triangle contributed to the puntal [0] / lineal [1] part
    zero_area: [bool; 2],
    depth: usize,
    ood: Option<&'static str>,
    /// effective dimension of every leaf member in traversal order (-1 empty)
    order: Vec<i32>,
}

fn ring_moments(r: &[IP], b: IP) -> (i128, i128, i128) {
    let (mut a2, mut gx, mut gy, mut sx, mut sy) = (0i128, 0i128, 0i128, 0i128, 0i128);
    let mut step = |p: IP, q: IP| {
        let (x0, y0) = ((p.0 - b.0) as i128, (p.1 - b.1) as i128);
        let (x1, y1) = ((q.0 - b.0) as i128, (q.1 - b.1) as i128);
        let d = x0 * y1 - x1 * y0;
        a2 += d;
        gx += (x0 * x0 + x0 * x1 + x1 * x1) * (y1 - y0);
        gy -= (y0 * y0 + y0 * y1 + y1 * y1) * (x1 - x0);
        sx += (x0 + x1) * d;
        sy += (y0 + y1) * d;
    };
    for w in r.windows(2) {
        step(w[0], w[1]);
    }
    // geo-types' Polygon::new closes an open ring (documented); mirror that
    if r.len() >= 2 && r[0] != r[r.len() - 1] {
        step(r[r.len() - 1], r[0]);
    }
    // oracle self-check: Green form == shoelace-moment form (the difference telescopes on a closed ring)
    if gx != sx || gy != sy {
        panic!("oracle bug: ring moment formulas disagree");
    }
    (a2, gx, gy)
}

fn all_equal(v: &[IP]) -> bool {
    v.iter().all(|&p| p == v[0])
}
fn collinear(v: &[IP]) -> bool {
    let Some(&a) = v.first() else { return true };
    let Some(&b) = v.iter().find(|&&p| p != a) else { return true };
    v.iter().all(|&c| orient_i(a, b, c) == 0)
}

impl Parts {
    fn flag(&mut self, s: &str) {
        self.flags.insert(s.to_string());
    }
    fn push_segs(&mut self, v: &[IP], close: bool) {
        for w in v.windows(2) {
            if w[0] != w[1] {
                self.segs.push((w[0], w[1]));
            }
        }
        if close && v.len() >= 2 && v[0] != v[v.len() - 1] {
            self.segs.push((v[v.len() - 1], v[0]));
        }
    }
    fn linestring(&mut self, v: &[IP]) {
        if v.is_empty() {
            self.flag("empty:LineString");
            self.order.push(-1);
            return;
        }
        if all_equal(v) {
            let hi = (v.len() as u32).saturating_sub(1).max(1);
            self.pts.push(Pt { p: v[0], lo: 1, hi });
            self.flag(match v.len() {
                1 => "deg:linestring.single_coord",
                2 => "deg:linestring.point2",
                _ => "deg:linestring.pointN(ambiguous multiplicity)",
            });
            self.order.push(0);
            return;
        }
        if v.windows(2).any(|w| w[0] == w[1]) {
            self.flag("linestring.zero_length_segment");
        }
        if v[0] == v[v.len() - 1] {
            self.flag("linestring.closed");
        }
        self.push_segs(v, false);
        self.order.push(1);
    }
    fn polygon(&mut self, rings: &[Vec<IP>]) {
        if rings.is_empty() || rings[0].is_empty() {
            self.flag("empty:Polygon");
            if rings.iter().skip(1).any(|r| !r.is_empty()) {
                self.ood = Some("polygon with empty exterior and non-empty interior");
            }
            self.order.push(-1);
            return;
        }
        let ext = &rings[0];
        let b = self.base;
        let (a2e, gxe, gye) = ring_moments(ext, b);
        if a2e == 0 {
            if rings.iter().skip(1).any(|r| !r.is_empty()) {
                self.ood = Some("zero-area exterior with non-empty interior rings");
            } else if rings.len() > 1 {
                self.flag("deg:hole.empty");
            }
            if all_equal(ext) {
                self.pts.push(Pt { p: ext[0], lo: 1, hi: 1 });
                self.flag(&format!("deg:polygon.point(len{})", ext.len().min(4)));
                self.zero_area[0] = true;
                self.order.push(0);
            } else {
                self.flag(if collinear(ext) { "deg:polygon.flat" } else { "deg:polygon.spike" });
                self.push_segs(ext, true);
                self.zero_area[1] = true;
                self.order.push(1);
            }
            return;
        }
        self.flag(if a2e > 0 { "ext:ccw" } else { "ext:cw" });
        let sg = |a: i128| if a > 0 { 1 } else { -1 };
        let (mut w2, mut gx, mut gy, mut abs2, mut nr) = (a2e.abs(), sg(a2e) * gxe, sg(a2e) * gye, a2e.abs(), 1usize);
        let mut coords = ext.clone();
        for h in &rings[1..] {
            if h.is_empty() {
                self.flag("deg:hole.empty");
                continue;
            }
            let (a2h, gxh, gyh) = ring_moments(h, b);
            if a2h == 0 {
                self.flag(if all_equal(h) { "deg:hole.point" } else { "deg:hole.zero_area" });
                continue;
            }
            self.flag(if (a2h > 0) == (a2e > 0) { "hole:same_winding_as_ext" } else { "hole:opposite_winding" });
            w2 -= a2h.abs();
            gx -= sg(a2h) * gxh;
            gy -= sg(a2h) * gyh;
            abs2 += a2h.abs();
            nr += 1;
            coords.extend(h.iter().cloned());
        }
        if nr > 1 {
            self.flag(&format!("holes:{}", (nr - 1).min(4)));
        }
        if w2 > 0 {
            self.areal.push(Areal { w2, gx, gy, abs2, nrings: nr, coords, tri: None });
            self.order.push(2);
        } else if w2 == 0 {
            self.flag("deg:polygon.covered_by_holes");
            self.push_segs(ext, true);
            self.zero_area[1] = true;
            self.order.push(1);
        } else {
            self.ood = Some("holes larger than the exterior");
        }
    }
    fn walk(&mut self, g: &IG, depth: usize) {
        self.depth = self.depth.max(depth);
        match g {
            IG::Point(p) => {
                self.pts.push(Pt { p: *p, lo: 1, hi: 1 });
                self.order.push(0);
            }
            IG::MultiPoint(v) => {
                if v.is_empty() {
                    self.flag("empty:MultiPoint");
                    self.order.push(-1);
                }
                for p in v {
                    self.pts.push(Pt { p: *p, lo: 1, hi: 1 });
                    self.order.push(0);
                }
            }
            IG::Line(a, b) => {
                if a == b {
                    self.pts.push(Pt { p: *a, lo: 1, hi: 1 });
                    self.flag("deg:line.point");
                    self.order.push(0);
                } else {
                    self.segs.push((*a, *b));
                    self.order.push(1);
                }
            }
            IG::LineString(v) => self.linestring(v),
            IG::MultiLineString(vs) => {
                if vs.is_empty() {
                    self.flag("empty:MultiLineString");
                    self.order.push(-1);
                }
                for v in vs {
                    self.linestring(v);
                }
            }
            IG::Polygon(r) => self.polygon(r),
            IG::MultiPolygon(ps) => {
                if ps.is_empty() {
                    self.flag("empty:MultiPolygon");
                    self.order.push(-1);
                }
                for p in ps {
                    self.polygon(p);
                }
            }
            IG::Rect(a, b) => {
                let (x0, x1, y0, y1) = (a.0.min(b.0), a.0.max(b.0), a.1.min(b.1), a.1.max(b.1));
                if x0 != x1 && y0 != y1 {
                    let ring = IG::rect_ring(*a, *b);
                    let (a2, gx, gy) = ring_moments(&ring, self.base);
                    self.areal.push(Areal { w2: a2.abs(), gx: a2.signum() * gx, gy: a2.signum() * gy, abs2: a2.abs(), nrings: 1, coords: ring[..4].to_vec(), tri: None });
                    self.order.push(2);
                } else if x0 == x1 && y0 == y1 {
                    self.pts.push(Pt { p: (x0, y0), lo: 1, hi: 1 });
                    self.flag("deg:rect.point");
                    self.zero_area[0] = true;
                    self.order.push(0);
                } else {
                    // outline of a flat rect: min->max and back (the two other sides have zero length)
                    self.segs.push(((x0, y0), (x1, y1)));
                    self.segs.push(((x1, y1), (x0, y0)));
                    self.flag("deg:rect.line");
                    self.zero_area[1] = true;
                    self.order.push(1);
                }
            }
            IG::Triangle(a, b, c) => {
                let o = orient_i(*a, *b, *c);
                if o != 0 {
                    let ring = [*a, *b, *c, *a];
                    let (a2, gx, gy) = ring_moments(&ring, self.base);
                    self.areal.push(Areal { w2: a2.abs(), gx: a2.signum() * gx, gy: a2.signum() * gy, abs2: a2.abs(), nrings: 1, coords: vec![*a, *b, *c], tri: Some([*a, *b, *c]) });
                    self.flag(if o > 0 { "triangle:ccw(lattice order)" } else { "triangle:cw(lattice order)" });
                    self.order.push(2);
                } else if a == b && b == c {
                    self.pts.push(Pt { p: *a, lo: 1, hi: 1 });
                    self.flag("deg:triangle.point");
                    self.zero_area[0] = true;
                    self.order.push(0);
                } else {
                    self.push_segs(&[*a, *b, *c, *a], false);
                    self.flag(if a == b || b == c || a == c { "deg:triangle.line(repeated corner)" } else { "deg:triangle.line" });
                    self.zero_area[1] = true;
                    self.order.push(1);
                }
            }
            IG::Collection(v) => {
                if v.is_empty() {
                    self.flag("empty:GeometryCollection");
                    self.order.push(-1);
                }
                for m in v {
                    self.walk(m, depth + 1);
                }
            }
        }
    }
    fn dim(&self) -> i32 {
        if !self.areal.is_empty() {
            2
        } else if !self.segs.is_empty() {
            1
        } else if !self.pts.is_empty() {
            0
        } else {
            -1
        }
    }
    fn dominant_coords(&self) -> Vec<IP> {
        match self.dim() {
            2 => self.areal.iter().flat_map(|a| a.coords.iter().cloned()).collect(),
            1 => self.segs.iter().flat_map(|s| [s.0, s.1]).collect(),
            0 => self.pts.iter().map(|p| p.p).collect(),
            _ => vec![],
        }
    }
}

fn analyse(g: &IG) -> Parts {
    let all = g.coords();
    let mut p = Parts::default();
    if !all.is_empty() {
        p.base = (all.iter().map(|c| c.0).min().unwrap(), all.iter().map(|c| c.1).min().unwrap());
    }
    p.all = all;
    p.walk(g, 0);
    p
}

fn two_sum(a: f64, b: f64) -> (f64, f64) {
    let s = a + b;
    let bb = s - a;
    (s, (a - (s - bb)) + (b - bb))
}
#[derive(Default, Clone, Copy)]
struct DD {
    hi: f64,
    lo: f64,
}
impl DD {
    fn add(&mut self, x: f64) {
        let (s, e) = two_sum(self.hi, x);
        self.hi = s;
        self.lo += e;
    }
    fn add_prod(&mut self, a: f64, b: f64) {
        let p = a * b;
        let e = a.mul_add(b, -p);
        self.add(p);
        self.lo += e;
    }
    fn val(&self) -> f64 {
        self.hi + self.lo
    }
}

fn q2f(n: i128, d: i128) -> f64 {
    // n/d with |n|, |d| < 2^100: split off the integer part so that the quotient is accurate to ~2u of the
    // result's own magnitude even when n and d are not exactly representable
    let q = n.div_euclid(d);
    let r = n.rem_euclid(d);
    q as f64 + (r as f64) / (d as f64)
}

const MAX_COMBOS: u128 = 4096;
fn puntal_combos(p: &Parts) -> u128 {
    p.pts.iter().fold(1u128, |a, x| a.saturating_mul((x.hi - x.lo + 1) as u128))
}
/// Puntal input with very many members of ambiguous multiplicity: is `c` (lattice units relative to base)
/// a weighted mean  Σ w_i p_i / Σ w_i  for SOME real weights lo_i <= w_i <= hi_i ?  Equivalent to
/// -Σ lo_i (p_i - c)  lying in the zonotope generated by (hi_i - lo_i)(p_i - c); in the plane that is decided
/// by the support function along the normals of the generators (plus the generators themselves and the
/// axes, which covers the degenerate zonotopes; extra directions are necessary conditions too).
/// Returns the worst excess, expressed as a displacement of c in lattice units (<= 0 means inside).
fn puntal_relaxed(p: &Parts, c: (f64, f64)) -> f64 {
    let n: f64 = p.pts.iter().map(|x| x.hi as f64).sum();
    let rel = |x: &Pt| ((x.p.0 - p.base.0) as f64 - c.0, (x.p.1 - p.base.1) as f64 - c.1);
    let mut target = (0.0, 0.0);
    let mut gens: Vec<(f64, f64)> = vec![];
    for x in &p.pts {
        let v = rel(x);
        target.0 -= x.lo as f64 * v.0;
        target.1 -= x.lo as f64 * v.1;
        if x.hi > x.lo {
            let k = (x.hi - x.lo) as f64;
            gens.push((k * v.0, k * v.1));
        }
    }
    let mut dirs: Vec<(f64, f64)> = vec![(1.0, 0.0), (0.0, 1.0)];
    for g in &gens {
        dirs.push(*g);
        dirs.push((-g.1, g.0));
    }
    let mut worst = f64::NEG_INFINITY;
    for d in dirs {
        let l1 = d.0.abs() + d.1.abs();
        if !(l1 > 0.0) {
            continue;
        }
        for sgn in [1.0, -1.0] {
            let d = (sgn * d.0 / l1, sgn * d.1 / l1);
            let h: f64 = gens.iter().map(|g| (g.0 * d.0 + g.1 * d.1).max(0.0)).sum();
            let excess = (target.0 * d.0 + target.1 * d.1 - h) / n;
            if !(excess <= worst) {
                worst = excess; // NaN propagates: a NaN result is never accepted
            }
        }
    }
    worst
}

/// candidate expected centroids in lattice units relative to `base` (more than one only for the
/// puntal case with members of ambiguous multiplicity)
fn expected(p: &Parts) -> Vec<(f64, f64)> {
    match p.dim() {
        2 => {
            let w2: i128 = p.areal.iter().map(|a| a.w2).sum();
            let gx: i128 = p.areal.iter().map(|a| a.gx).sum();
            let gy: i128 = p.areal.iter().map(|a| a.gy).sum();
            vec![(q2f(gx, 3 * w2), q2f(gy, 3 * w2))]
        }
        1 => {
            let (mut l, mut sx, mut sy) = (DD::default(), DD::default(), DD::default());
            for &(a, b) in &p.segs {
                let (dx, dy) = ((b.0 - a.0) as i128, (b.1 - a.1) as i128);
                let len = ((dx * dx + dy * dy) as f64).sqrt();
                l.add(len);
                sx.add_prod(len, (a.0 + b.0 - 2 * p.base.0) as f64);
                sy.add_prod(len, (a.1 + b.1 - 2 * p.base.1) as f64);
            }
            let w = 2.0 * l.val();
            vec![(sx.val() / w, sy.val() / w)]
        }
        0 => {
            // enumerate the admissible integer multiplicities of the ambiguous members; when there are too
            // many assignments only the one-per-member mean is returned and the judgement uses the
            // continuous relaxation (`puntal_relaxed`)
            let many = puntal_combos(p) > MAX_COMBOS;
            let amb: Vec<usize> = if many { vec![] } else { (0..p.pts.len()).filter(|&i| p.pts[i].hi > p.pts[i].lo).collect() };
            let mut mult: Vec<u32> = p.pts.iter().map(|x| x.lo).collect();
            let mut out = vec![];
            loop {
                let n: i128 = mult.iter().map(|&m| m as i128).sum();
                let sx: i128 = p.pts.iter().zip(&mult).map(|(x, &m)| (x.p.0 - p.base.0) as i128 * m as i128).sum();
                let sy: i128 = p.pts.iter().zip(&mult).map(|(x, &m)| (x.p.1 - p.base.1) as i128 * m as i128).sum();
                out.push((q2f(sx, n), q2f(sy, n)));
                // next assignment
                let mut i = 0;
                loop {
                    if i == amb.len() {
                        return out;
                    }
                    let j = amb[i];
                    if mult[j] < p.pts[j].hi {
                        mult[j] += 1;
                        break;
                    }
                    mult[j] = p.pts[j].lo;
                    i += 1;
                }
            }
        }
        _ => vec![],
    }
}

#[derive(Clone, Copy, Debug)]
struct Tol {
    tol: f64,
    e: f64,
    m_abs: f64,
    n: usize,
    m: usize,
    cond: f64,
    shape: f64,
}
fn tolerance(p: &Parts, lat: &Lat) -> Tol {
    let dc = p.dominant_coords();
    if dc.is_empty() {
        return Tol { tol: 0.0, e: 0.0, m_abs: 0.0, n: 0, m: 0, cond: 1.0, shape: 1.0 };
    }
    let (x0, x1) = (dc.iter().map(|c| c.0).min().unwrap(), dc.iter().map(|c| c.0).max().unwrap());
    let (y0, y1) = (dc.iter().map(|c| c.1).min().unwrap(), dc.iter().map(|c| c.1).max().unwrap());
    let e = ((x1 - x0).max(y1 - y0)) as f64;
    let m_abs = [(lat.ox + x0).abs(), (lat.ox + x1).abs(), (lat.oy + y0).abs(), (lat.oy + y1).abs()].iter().cloned().max().unwrap() as f64;
    let (n, m, cond, shape) = match p.dim() {
        2 => {
            let w2: i128 = p.areal.iter().map(|a| a.w2).sum();
            let abs2: i128 = p.areal.iter().map(|a| a.abs2).sum();
            let nr: usize = p.areal.iter().map(|a| a.nrings).sum();
            (dc.len(), nr, abs2 as f64 / w2 as f64, (2.0 * e * e / w2 as f64).max(1.0))
        }
        1 => (dc.len(), p.segs.len(), 1.0, 1.0),
        _ => {
            let k: usize = p.pts.iter().map(|x| x.hi as usize).sum();
            (k, k, 1.0, 1.0)
        }
    };
    let tol = U * (KM * (m as f64 + 2.0) * m_abs * cond + KE * n as f64 * e * shape);
    Tol { tol, e, m_abs, n, m, cond, shape }
}

/// geo's result in lattice units relative to base (the subtraction is exact or rounds by <= u·|result|)
fn local(lat: &Lat, base: IP, c: Point<f64>) -> (f64, f64) {
    let s = crate::q::pow2(-lat.sh);
    (c.x() * s - (lat.ox + base.0) as f64, c.y() * s - (lat.oy + base.1) as f64)
}

fn hull(pts: &[IP]) -> Vec<IP> {
    let mut v = pts.to_vec();
    v.sort();
    v.dedup();
    if v.len() <= 2 {
        return v;
    }
    let mut h: Vec<IP> = vec![];
    for pass in 0..2 {
        let start = h.len();
        let it: Box<dyn Iterator<Item = &IP>> = if pass == 0 { Box::new(v.iter()) } else { Box::new(v.iter().rev()) };
        for &p in it {
            while h.len() >= start + 2 && orient_i(h[h.len() - 2], h[h.len() - 1], p) <= 0 {
                h.pop();
            }
            h.push(p);
        }
        h.pop();
    }
    h
}
/// how far (lattice units) the point lies outside the convex hull: 0 inside; a lower bound of the true distance
fn outside(h: &[IP], base: IP, p: (f64, f64)) -> f64 {
    let f = |q: IP| ((q.0 - base.0) as f64, (q.1 - base.1) as f64);
    match h.len() {
        0 => f64::INFINITY,
        1 => {
            let a = f(h[0]);
            (p.0 - a.0).hypot(p.1 - a.1)
        }
        2 => {
            let (a, b) = (f(h[0]), f(h[1]));
            let (dx, dy) = (b.0 - a.0, b.1 - a.1);
            let t = (((p.0 - a.0) * dx + (p.1 - a.1) * dy) / (dx * dx + dy * dy)).clamp(0.0, 1.0);
            (p.0 - (a.0 + t * dx)).hypot(p.1 - (a.1 + t * dy))
        }
        n => {
            let mut worst = 0f64;
            for i in 0..n {
                let (a, b) = (f(h[i]), f(h[(i + 1) % n]));
                let (dx, dy) = (b.0 - a.0, b.1 - a.1);
                let cr = dx * (p.1 - a.1) - dy * (p.0 - a.0);
                worst = worst.max(-cr / dx.hypot(dy));
            }
            worst
        }
    }
}
/// exact: is the (areal / puntal) reference inside the hull of the dominant coordinates?  num/den relative to base
fn ref_in_hull_exact(h: &[IP], base: IP, nx: i128, ny: i128, den: i128) -> bool {
    // checked products: the operands reach 2^95 x 2^30 on the wide lattices (an overflow would be counted
    // as an inconclusive case by the guard around the case, never as a verdict)
    fn m(a: i128, b: i128) -> i128 {
        a.checked_mul(b).unwrap_or_else(|| crate::q::qovf())
    }
    let r = |q: IP| ((q.0 - base.0) as i128, (q.1 - base.1) as i128);
    match h.len() {
        0 => false,
        1 => {
            let a = r(h[0]);
            nx == m(a.0, den) && ny == m(a.1, den)
        }
        2 => {
            let (a, b) = (r(h[0]), r(h[1]));
            let (ux, uy) = (nx - m(a.0, den), ny - m(a.1, den));
            let cr = m(b.0 - a.0, uy) - m(b.1 - a.1, ux);
            let dt = m(b.0 - a.0, ux) + m(b.1 - a.1, uy);
            let l2 = m(m(b.0 - a.0, b.0 - a.0) + m(b.1 - a.1, b.1 - a.1), den);
            cr == 0 && dt >= 0 && dt <= l2
        }
        n => (0..n).all(|i| {
            let (a, b) = (r(h[i]), r(h[(i + 1) % n]));
            m(b.0 - a.0, ny - m(a.1, den)) - m(b.1 - a.1, nx - m(a.0, den)) >= 0
        }),
    }
}

/// What the recorded defect (Triangle::unsigned_area evaluated at absolute coordinates, no shift)
/// produces: the reference with every 2-d Triangle's weight replaced by the f64 value of
/// |Σ det(side)|/2 at the mapped coordinates. Used only to label a violation, never to excuse one.
fn tri_defect_emulation(p: &Parts, lat: &Lat) -> Option<((f64, f64), f64)> {
    if p.dim() != 2 || !p.areal.iter().any(|a| a.tri.is_some()) {
        return None;
    }
    let s2 = crate::q::pow2(-2 * lat.sh);
    let (mut w, mut sx, mut sy, mut wabs) = (0f64, 0f64, 0f64, 0f64);
    for a in &p.areal {
        let cx = q2f(a.gx, 3 * a.w2);
        let cy = q2f(a.gy, 3 * a.w2);
        let wi = match a.tri {
            Some(t) => {
                let c: Vec<geo::Coord<f64>> = t.iter().map(|&q| lat.c(q)).collect();
                let det = |i: usize, j: usize| c[i].x * c[j].y - c[i].y * c[j].x;
                let sum = 0.0 + det(0, 1) + det(1, 2) + det(2, 0);
                (sum / 2.0).abs() * s2
            }
            None => a.w2 as f64 / 2.0,
        };
        w += wi;
        wabs += a.w2 as f64 / 2.0;
        sx += wi * cx;
        sy += wi * cy;
    }
    Some(((sx / w, sy / w), wabs / w))
}

struct Judged {
    ok: bool,
    err: f64,
    tol: Tol,
    exp: Vec<(f64, f64)>,
    got_local: Option<(f64, f64)>,
    class: &'static str,
    matched: usize,
    /// judged by the continuous relaxation over ambiguous multiplicities (no single expected value)
    relaxed: bool,
}
fn judge_point(p: &Parts, lat: &Lat, got: Option<Point<f64>>) -> Judged {
    let exp = expected(p);
    let tol = tolerance(p, lat);
    let Some(c) = got else {
        return Judged { ok: exp.is_empty(), err: f64::INFINITY, tol, exp, got_local: None, class: "-", matched: 0, relaxed: false };
    };
    let gl = local(lat, p.base, c);
    if exp.is_empty() {
        return Judged { ok: false, err: f64::INFINITY, tol, exp, got_local: Some(gl), class: "-", matched: 0, relaxed: false };
    }
    if p.dim() == 0 && puntal_combos(p) > MAX_COMBOS {
        // a moved c changes every p_i - c: 2·tol on the normalised excess, plus the f64 evaluation of the sums
        let excess = puntal_relaxed(p, gl);
        let ok = excess <= 2.0 * tol.tol + 64.0 * U * tol.e;
        return Judged { ok, err: excess.max(0.0), tol, exp, got_local: Some(gl), class: "-", matched: 0, relaxed: true };
    }
    let mut best = f64::INFINITY;
    let mut matched = 0;
    for (i, e) in exp.iter().enumerate() {
        let d = (gl.0 - e.0).abs().max((gl.1 - e.1).abs());
        // NaN-safe: a NaN distance never improves `best`
        if d < best {
            best = d;
            matched = i;
        }
    }
    let ok = best <= tol.tol;
    let mut class = "-";
    if !ok {
        if let Some((em, amp)) = tri_defect_emulation(p, lat) {
            let both_nan = !(em.0.is_finite() && em.1.is_finite()) && !(gl.0.is_finite() && gl.1.is_finite());
            let d = (gl.0 - em.0).abs().max((gl.1 - em.1).abs());
            if both_nan || d <= 16.0 * tol.tol * amp.abs().max(1.0) {
                class = TRI_CLASS;
            }
        }
    }
    Judged { ok, err: best, tol, exp, got_local: Some(gl), class, matched, relaxed: false }
}

// ------------------------------------------------------------------------------------------
// one case
// ------------------------------------------------------------------------------------------
/// `IG::to_geo`, except that with `raw_tri` a Triangle keeps the corner order of the lattice description
/// (built through the public tuple fields; `Triangle::new` would re-order clockwise corners)
fn to_geo_c06(g: &IG, l: &Lat, raw_tri: bool) -> geo::Geometry<f64> {
    if !raw_tri {
        return g.to_geo(l);
    }
    match g {
        IG::Triangle(a, b, c) => geo::Geometry::Triangle(geo::Triangle(l.c(*a), l.c(*b), l.c(*c))),
        IG::Collection(v) => geo::Geometry::GeometryCollection(geo::GeometryCollection::new_from(v.iter().map(|m| to_geo_c06(m, l, true)).collect())),
        _ => g.to_geo(l),
    }
}

pub struct Case {
    pub stratum: &'static str,
    pub raw_tri: bool,
    pub g: IG,
    pub lat: Lat,
    pub lat_t: Lat,
    pub lat_s: Lat,
    pub kint: i64,
}
impl Case {
    fn detail(&self, check: &str, expected: Value, got: Value, extra: Value) -> Value {
        json!({"property": "C06", "check": check, "g": self.g.json(), "lat": self.lat.json(), "lat_t": self.lat_t.json(), "lat_s": self.lat_s.json(), "kint": self.kint, "raw_triangles": self.raw_tri,
               "expected": expected, "got": got, "extra": extra, "g_geo": format!("{:?}", to_geo_c06(&self.g, &self.lat, self.raw_tri))})
    }
}
fn fmt_pt(p: Option<Point<f64>>) -> Value {
    match p {
        None => json!("None"),
        Some(c) => json!({"x": c.x(), "y": c.y(), "x_hex": hexf(c.x()), "y_hex": hexf(c.y())}),
    }
}
fn fmt_exp(p: &Parts, lat: &Lat, e: &[(f64, f64)]) -> Value {
    if e.is_empty() {
        return json!("None");
    }
    let s = lat.scale();
    let f = |q: &(f64, f64)| json!({"x": (q.0 + (lat.ox + p.base.0) as f64) * s, "y": (q.1 + (lat.oy + p.base.1) as f64) * s, "lattice_rel_base": [q.0, q.1]});
    if e.len() == 1 {
        f(&e[0])
    } else {
        json!({"any_of": e.iter().take(8).map(f).collect::<Vec<_>>(), "candidates": e.len()})
    }
}
fn offclass(l: &Lat) -> &'static str {
    match l.ox.abs().max(l.oy.abs()) {
        0 => "0",
        1..=1000 => "1e3",
        1001..=100_000_000 => "1e8",
        _ => "2^40",
    }
}

pub fn check_case(sh: &mut Shard, cs: &Case, verbose: bool) {
    let g = &cs.g;
    let lat = &cs.lat;
    let p = match guard(|| analyse(g)) {
        Ok(p) => p,
        Err(Caught::Panic(s)) => panic!("{s}"),
        Err(_) => {
            sh.inconclusive("oracle:overflow");
            return;
        }
    };
    let site = g.kind();
    let ga = to_geo_c06(g, lat, cs.raw_tri);
    let dim = p.dim();
    if verbose {
        println!("geometry = {:?}", ga);
        println!("dominant dimension = {dim}; areal members {}, lineal segments {}, points {}; flags {:?}", p.areal.len(), p.segs.len(), p.pts.len(), p.flags);
    }
    if let Some(why) = p.ood {
        // outside the stated domain: observe only (crash check)
        sh.class(&format!("observe_only:{why}"));
        if let Err(m) = call(|| ga.centroid()) {
            sh.violation(&format!("panic|{site}|-"), cs.detail("panic", json!("no panic"), json!(m), json!({"at": last_panic_loc(), "domain": "observe-only"})));
        }
        return;
    }
    // ---- the calls
    let r_enum = call(|| ga.centroid());
    let r_conc = call(|| with_geom!(&ga, x => x.centroid().opt()));
    let (r_enum, r_conc) = match (r_enum, r_conc) {
        (Ok(a), Ok(b)) => (a, b),
        (a, b) => {
            sh.eval(1);
            let m = a.err().or(b.err()).unwrap_or_default();
            sh.violation(&format!("panic|{site}|-"), cs.detail("panic", json!("no panic"), json!(m), json!({"at": last_panic_loc()})));
            return;
        }
    };
    // ---- oracle self-check: the reference lies in the hull of the dominant part
    let hd = hull(&p.dominant_coords());
    let self_ok = match dim {
        2 => {
            let w2: i128 = p.areal.iter().map(|a| a.w2).sum();
            ref_in_hull_exact(&hd, p.base, p.areal.iter().map(|a| a.gx).sum(), p.areal.iter().map(|a| a.gy).sum(), 3 * w2)
        }
        1 => {
            let e = expected(&p)[0];
            let t = tolerance(&p, &Lat::ID);
            outside(&hd, p.base, e) <= 64.0 * U * t.e.max(1.0)
        }
        0 => {
            let n = p.pts.iter().map(|x| x.lo as i128).sum::<i128>();
            ref_in_hull_exact(&hd, p.base, p.pts.iter().map(|x| (x.p.0 - p.base.0) as i128 * x.lo as i128).sum(), p.pts.iter().map(|x| (x.p.1 - p.base.1) as i128 * x.lo as i128).sum(), n)
        }
        _ => true,
    };
    if !self_ok {
        sh.inconclusive("oracle.selfcheck.reference_outside_hull");
        return;
    }
    // ---- clause 1: None exactly for empty
    for (which, r) in [("", r_conc), ("Geometry::", r_enum)] {
        sh.eval(1);
        let want_none = dim < 0;
        if verbose {
            println!("none_iff_empty {which}{site}: expected {} got {:?}", if want_none { "None" } else { "Some" }, r);
        }
        if r.is_none() != want_none {
            sh.violation(&format!("none_iff_empty|{which}{site}|-"), cs.detail("none_iff_empty", json!(if want_none { "None" } else { "Some(_)" }), fmt_pt(r), json!({"flags": p.flags})));
        }
    }
    // ---- clause 6: enum delegates to the concrete impl
    sh.eval(1);
    let same = match (r_enum, r_conc) {
        (None, None) => true,
        (Some(a), Some(b)) => a.x().to_bits() == b.x().to_bits() && a.y().to_bits() == b.y().to_bits(),
        _ => false,
    };
    if !same {
        sh.violation(&format!("enum_vs_concrete|{site}|-"), cs.detail("enum_vs_concrete", fmt_pt(r_conc), fmt_pt(r_enum), json!({})));
    }
    // ---- clause 2-4 (+ zero-area fallback): centre of mass of the dominant part
    let dimname = ["puntal", "lineal", "areal"];
    let mass_check = if dim >= 0 && dim < 2 && p.zero_area[dim as usize] { "zero_area_outline".to_string() } else if dim >= 0 { format!("mass_centre.{}", dimname[dim as usize]) } else { String::new() };
    // cases on which the Triangle-area defect (REPORT.md) can perturb a passing result: kept out of the calibration maxima
    let far = |l: &Lat| offclass(l) != "0" && offclass(l) != "1e3";
    let tri_far = dim == 2 && p.areal.iter().any(|a| a.tri.is_some()) && (far(lat) || far(&cs.lat_t));
    let mut j_main: Option<Judged> = None;
    if dim >= 0 {
        for (which, r) in [("", r_conc), ("Geometry::", r_enum)] {
            if r.is_none() {
                continue; // already reported by none_iff_empty
            }
            sh.eval(1);
            let j = judge_point(&p, lat, r);
            if verbose {
                println!("{mass_check} {which}{site}: expected {} got {:?}  |err| = {:e} lattice units, tol = {:e} ({:?})", fmt_exp(&p, lat, &j.exp), r, j.err, j.tol.tol, j.tol);
            }
            if j.relaxed {
                sh.class("puntal.ambiguous:judged by the continuous relaxation (> 4096 multiplicity assignments)");
            }
            if j.ok && j.relaxed {
                sh.maximum("ratio.puntal.relaxed", j.err / (2.0 * j.tol.tol + 64.0 * U * j.tol.e));
            } else if j.ok {
                let key = if tri_far { format!("ratio.{}.triangle_far(defect-prone)", dimname[dim as usize]) } else { format!("ratio.{}", dimname[dim as usize]) };
                if j.tol.tol > 0.0 {
                    sh.maximum(&key, j.err / j.tol.tol);
                    sh.maximum(&format!("{key}.off{}", offclass(lat)), j.err / j.tol.tol);
                } else if j.err > 0.0 {
                    sh.maximum(&key, f64::INFINITY);
                }
            } else {
                sh.violation(
                    &format!("{mass_check}|{which}{site}|{}", j.class),
                    cs.detail(&mass_check, fmt_exp(&p, lat, &j.exp), fmt_pt(r), json!({"err_lattice_units": j.err, "tol_lattice_units": j.tol.tol, "E": j.tol.e, "M": j.tol.m_abs, "n": j.tol.n, "m": j.tol.m, "cond": j.tol.cond, "shape": j.tol.shape, "flags": p.flags, "dominant_dim": dim, "relaxed_multiplicities": j.relaxed})),
                );
            }
            if which.is_empty() {
                j_main = Some(j);
            }
        }
    }
    // which multiplicity convention did geo follow on ambiguous puntal input? (observation only)
    if dim == 0 {
        if let Some(j) = &j_main {
            if j.exp.len() > 1 && j.ok {
                let distinct = j.exp.iter().any(|e| (e.0 - j.exp[0].0).abs().max((e.1 - j.exp[0].1).abs()) > 4.0 * j.tol.tol);
                if distinct {
                    let last = j.exp.len() - 1;
                    sh.class(if j.matched == 0 { "puntal.ambiguous:geo=one_per_member" } else if j.matched == last { "puntal.ambiguous:geo=one_per_zero_length_segment" } else { "puntal.ambiguous:geo=other_admissible" });
                }
            }
        }
    }
    // ---- clause: inside the convex hull of the whole geometry
    if let (Some(c), true) = (r_conc, dim >= 0) {
        sh.eval(1);
        let h = hull(&p.all);
        let t = tolerance(&p, lat);
        let o = outside(&h, p.base, local(lat, p.base, c));
        if verbose {
            println!("convex_hull {site}: hull {:?}; outside by {:e} (tol {:e})", h, o, t.tol);
        }
        if !(o <= t.tol) {
            let kc = j_main.as_ref().map(|j| j.class).unwrap_or("-");
            sh.violation(&format!("convex_hull|{site}|{kc}"), cs.detail("convex_hull", json!({"inside_hull_of": format!("{:?}", h.iter().map(|&q| lat.c(q)).collect::<Vec<_>>())}), fmt_pt(r_conc), json!({"outside_by_lattice_units": o, "tol_lattice_units": t.tol})));
        } else if t.tol > 0.0 && !tri_far {
            sh.maximum("ratio.hull", o / t.tol);
        }
    }
    // ---- covariance clauses
    if let (Some(c0), true) = (r_conc, dim >= 0) {
        let l0 = local(lat, p.base, c0);
        let t0 = tolerance(&p, lat);
        let class0 = j_main.as_ref().map(|j| j.class).unwrap_or("-");
        // translation: same lattice preimage, different exactly representable offset
        {
            let lt = &cs.lat_t;
            let gt = to_geo_c06(g, lt, cs.raw_tri);
            sh.eval(1);
            match call(|| gt.centroid()) {
                Err(m) => sh.violation(&format!("panic|{site}|-"), cs.detail("panic", json!("no panic"), json!(m), json!({"at": last_panic_loc(), "where": "translated copy"}))),
                Ok(None) => sh.violation(&format!("translation|{site}|-"), cs.detail("translation", json!("Some(_)"), json!("None"), json!({}))),
                Ok(Some(c1)) => {
                    let l1 = local(lt, p.base, c1);
                    let t1 = tolerance(&p, lt);
                    let d = (l1.0 - l0.0).abs().max((l1.1 - l0.1).abs());
                    let tol = t0.tol + t1.tol;
                    if verbose {
                        println!("translation {site}: by ({}, {}) lattice units: moved result {:?} vs {:?}; diff {:e} tol {:e}", lt.ox - lat.ox, lt.oy - lat.oy, l1, l0, d, tol);
                    }
                    if !(d <= tol) {
                        let j1 = judge_point(&p, lt, Some(c1));
                        let kc = if class0 != "-" { class0 } else { j1.class };
                        sh.violation(&format!("translation|{site}|{kc}"), cs.detail("translation", json!({"centroid_minus_offset_lattice": [l0.0, l0.1]}), json!({"centroid_minus_offset_lattice": [l1.0, l1.1], "centroid": fmt_pt(Some(c1))}), json!({"diff": d, "tol": tol})));
                    } else if tol > 0.0 && !tri_far {
                        sh.maximum("ratio.translation", d / tol);
                    }
                }
            }
        }
        // scaling by a power of two (exact in IEEE arithmetic absent under/overflow)
        {
            let ls = &cs.lat_s;
            let gs = to_geo_c06(g, ls, cs.raw_tri);
            sh.eval(1);
            match call(|| gs.centroid()) {
                Err(m) => sh.violation(&format!("panic|{site}|-"), cs.detail("panic", json!("no panic"), json!(m), json!({"at": last_panic_loc(), "where": "scaled copy"}))),
                Ok(None) => sh.violation(&format!("scaling.pow2|{site}|-"), cs.detail("scaling.pow2", json!("Some(_)"), json!("None"), json!({}))),
                Ok(Some(c1)) => {
                    let l1 = local(ls, p.base, c1);
                    let d = (l1.0 - l0.0).abs().max((l1.1 - l0.1).abs());
                    let k = crate::q::pow2(ls.sh - lat.sh);
                    let bitexact = (c0.x() * k).to_bits() == c1.x().to_bits() && (c0.y() * k).to_bits() == c1.y().to_bits();
                    sh.class(if bitexact { "scaling.pow2:bit_exact" } else { "scaling.pow2:not_bit_exact" });
                    if verbose {
                        println!("scaling.pow2 {site}: by 2^{}: diff {:e} tol {:e} bit-exact {}", ls.sh - lat.sh, d, t0.tol, bitexact);
                    }
                    if !(d <= 2.0 * t0.tol) {
                        sh.violation(&format!("scaling.pow2|{site}|{class0}"), cs.detail("scaling.pow2", json!({"lattice": [l0.0, l0.1]}), json!({"lattice": [l1.0, l1.1], "centroid": fmt_pt(Some(c1))}), json!({"diff": d, "tol": 2.0 * t0.tol})));
                    }
                }
            }
        }
        // scaling by a small integer about the true origin: x -> k·x (exactly representable)
        {
            let k = cs.kint;
            let lk = Lat { ox: lat.ox * k, oy: lat.oy * k, sh: lat.sh, shear: 0 };
            let gk = g.map(&|q| (q.0 * k, q.1 * k));
            let gg = to_geo_c06(&gk, &lk, cs.raw_tri);
            sh.eval(1);
            match call(|| gg.centroid()) {
                Err(m) => sh.violation(&format!("panic|{site}|-"), cs.detail("panic", json!("no panic"), json!(m), json!({"at": last_panic_loc(), "where": "integer-scaled copy"}))),
                Ok(None) => sh.violation(&format!("scaling.int|{site}|-"), cs.detail("scaling.int", json!("Some(_)"), json!("None"), json!({}))),
                Ok(Some(c1)) => {
                    let lb = local(&lk, (p.base.0 * k, p.base.1 * k), c1);
                    let l1 = (lb.0 / k as f64, lb.1 / k as f64);
                    let d = (l1.0 - l0.0).abs().max((l1.1 - l0.1).abs());
                    let tol = 2.0 * t0.tol + 2.0 * U * t0.e;
                    if verbose {
                        println!("scaling.int {site}: by {k}: diff {:e} tol {:e}", d, tol);
                    }
                    if !(d <= tol) {
                        let pk = analyse(&gk);
                        let j1 = judge_point(&pk, &lk, Some(c1));
                        let kc = if class0 != "-" { class0 } else { j1.class };
                        sh.violation(&format!("scaling.int|{site}|{kc}"), cs.detail("scaling.int", json!({"lattice": [l0.0, l0.1]}), json!({"lattice_div_k": [l1.0, l1.1], "centroid": fmt_pt(Some(c1))}), json!({"diff": d, "tol": tol, "k": k})));
                    } else if tol > 0.0 && !tri_far {
                        sh.maximum("ratio.scaling.int", d / tol);
                    }
                }
            }
        }
    }
    // ---- evidence
    sh.class(&format!("stratum:{}", cs.stratum));
    sh.class(&format!("kind:{site}"));
    sh.class(&format!("dominant:{}", if dim < 0 { "empty" } else { dimname[dim as usize] }));
    if !mass_check.is_empty() {
        sh.class(&format!("check:{mass_check}"));
    }
    let present: String = [(-1, 'e'), (0, '0'), (1, '1'), (2, '2')].iter().filter(|(d, _)| p.order.contains(d)).map(|(_, c)| *c).collect();
    sh.class(&format!("member_dims:{present}"));
    if matches!(g, IG::Collection(_)) {
        sh.class(&format!("collection.depth:{}", p.depth));
        let o: Vec<i32> = p.order.iter().cloned().filter(|&d| d >= 0).collect();
        if o.windows(2).any(|w| w[0] > w[1]) {
            sh.class("probe:lower_dim_member_after_higher(ignored)");
        }
        if o.windows(2).any(|w| w[0] < w[1]) {
            sh.class("probe:higher_dim_member_after_lower(replaces)");
        }
        if o.windows(2).any(|w| w[0] == w[1]) {
            sh.class("probe:equal_dim_accumulation");
        }
    }
    for f in &p.flags {
        sh.class(f);
    }
    if cs.raw_tri && p.flags.contains("triangle:cw(lattice order)") {
        sh.class("triangle:clockwise corners handed to geo (tuple constructor)");
    }
    sh.class(&format!("offset:{}", offclass(lat)));
    sh.class(if lat.sh == 0 { "scale:1" } else { "scale:2^k" });
    let dc = p.dominant_coords();
    let nontrivial = dim >= 0 && dc.iter().any(|&c| c != dc[0]);
    if nontrivial {
        let mut h = Fnv::new();
        g.digest(&mut h);
        h.i64(lat.ox);
        h.i64(lat.oy);
        h.i64(lat.sh as i64);
        sh.nontrivial(h.0);
    }
    sh.sample(|| json!({"geometry": format!("{:?}", ga), "dominant_dim": dim, "expected": fmt_exp(&p, lat, &expected(&p)), "got": fmt_pt(r_conc), "flags": p.flags}));
}

// ------------------------------------------------------------------------------------------
// workload
// ------------------------------------------------------------------------------------------
fn rp(r: &mut Rng, g: i64) -> IP {
    (r.range(0, g), r.range(0, g))
}
fn two_distinct(r: &mut Rng, g: i64) -> (IP, IP) {
    loop {
        let (a, b) = (rp(r, g), rp(r, g));
        if a != b {
            return (a, b);
        }
    }
}
/// three distinct-or-not collinear points a + k·d (not all equal)
fn collinear3(r: &mut Rng, g: i64, allow_repeat: bool) -> [IP; 3] {
    loop {
        let a = rp(r, g);
        let d = (r.range(-2, 2), r.range(-2, 2));
        if d == (0, 0) {
            continue;
        }
        let k1 = r.range(-3, 3);
        let k2 = r.range(-3, 3);
        let ks = [0, k1, k2];
        let distinct = k1 != 0 && k2 != 0 && k1 != k2;
        if (k1 == 0 && k2 == 0) || (!allow_repeat && !distinct) {
            continue;
        }
        let mut v = [a, (a.0 + ks[1] * d.0, a.1 + ks[1] * d.1), (a.0 + ks[2] * d.0, a.1 + ks[2] * d.1)];
        r.shuffle(&mut v);
        return v;
    }
}
fn gen_ls(r: &mut Rng, g: i64, maxk: i64) -> Vec<IP> {
    loop {
        let k = r.range(2, maxk);
        let mut v: Vec<IP> = vec![];
        for _ in 0..k {
            // repeated coordinate (zero-length segment) now and then
            if !v.is_empty() && r.chance(1, 8) {
                let l = *v.last().unwrap();
                v.push(l);
            } else {
                v.push(rp(r, g));
            }
        }
        if r.chance(1, 6) {
            let f = v[0];
            v.push(f); // closed
        }
        if !all_equal(&v) {
            return v;
        }
    }
}
// fast integer-only construction of valid polygons (the shared generators use the Q-based validity
// predicates, ~100 us per polygon; they are still used for a share of the cases because they also
// produce holes tangent to the shell)
fn inbox(a: IP, b: IP, p: IP) -> bool {
    a.0.min(b.0) <= p.0 && p.0 <= a.0.max(b.0) && a.1.min(b.1) <= p.1 && p.1 <= a.1.max(b.1)
}
/// do the closed segments ab and cd have a point in common?
fn seg_touch(a: IP, b: IP, c: IP, d: IP) -> bool {
    let (o1, o2, o3, o4) = (orient_i(a, b, c).signum(), orient_i(a, b, d).signum(), orient_i(c, d, a).signum(), orient_i(c, d, b).signum());
    if o1 * o2 < 0 && o3 * o4 < 0 {
        return true;
    }
    (o1 == 0 && inbox(a, b, c)) || (o2 == 0 && inbox(a, b, d)) || (o3 == 0 && inbox(c, d, a)) || (o4 == 0 && inbox(c, d, b))
}
/// closed ring, >= 3 segments, no zero-length segment, no self-contact
fn ring_simple_fast(v: &[IP]) -> bool {
    let n = v.len() - 1;
    if v.len() < 4 || v[0] != v[n] {
        return false;
    }
    for i in 0..n {
        if v[i] == v[i + 1] {
            return false;
        }
        // neighbour: only a fold-back can make adjacent segments overlap
        let (p, q, s) = (v[i], v[i + 1], v[(i + 2) % n]);
        if orient_i(p, q, s) == 0 && (q.0 - p.0) * (s.0 - q.0) + (q.1 - p.1) * (s.1 - q.1) < 0 {
            return false;
        }
        for j in i + 2..n {
            if i == 0 && j == n - 1 {
                continue;
            }
            if seg_touch(v[i], v[i + 1], v[j], v[j + 1]) {
                return false;
            }
        }
    }
    true
}
/// strict interior test by crossing number (q must not lie on the ring)
fn in_ring(v: &[IP], q: IP) -> bool {
    let mut inside = false;
    for w in v.windows(2) {
        let (a, b) = (w[0], w[1]);
        if (a.1 > q.1) != (b.1 > q.1) {
            let o = orient_i(a, b, q);
            if (b.1 > a.1) == (o > 0) {
                inside = !inside;
            }
        }
    }
    inside
}
fn finish(r: &mut Rng, mut v: Vec<IP>) -> Vec<IP> {
    let s = r.below(v.len() as u64) as usize;
    v.rotate_left(s);
    if r.chance(1, 2) {
        v.reverse();
    }
    let f = v[0];
    v.push(f);
    v
}
fn fast_ring(r: &mut Rng, x0: i64, x1: i64, y0: i64, y1: i64, maxk: i64) -> Option<Vec<IP>> {
    if x1 <= x0 || y1 <= y0 {
        return None;
    }
    for _ in 0..12 {
        let v: Vec<IP> = match r.below(10) {
            0..=5 => {
                // star-shaped about a half-lattice centre: sort by exact angle
                let k = r.range(3, maxk.max(3));
                let mut pts: Vec<IP> = (0..k).map(|_| (r.range(x0, x1), r.range(y0, y1))).collect();
                pts.sort();
                pts.dedup();
                if pts.len() < 3 {
                    continue;
                }
                let c = (r.range(2 * x0, 2 * x1), r.range(2 * y0, 2 * y1));
                if pts.iter().any(|p| (2 * p.0, 2 * p.1) == c) {
                    continue;
                }
                let half = |p: &IP| {
                    let (x, y) = (2 * p.0 - c.0, 2 * p.1 - c.1);
                    if y > 0 || (y == 0 && x > 0) {
                        0
                    } else {
                        1
                    }
                };
                pts.sort_by(|a, b| {
                    let (ha, hb) = (half(a), half(b));
                    if ha != hb {
                        return ha.cmp(&hb);
                    }
                    let (ax, ay, bx, by) = ((2 * a.0 - c.0) as i128, (2 * a.1 - c.1) as i128, (2 * b.0 - c.0) as i128, (2 * b.1 - c.1) as i128);
                    let cr = ax * by - ay * bx;
                    if cr > 0 {
                        std::cmp::Ordering::Less
                    } else if cr < 0 {
                        std::cmp::Ordering::Greater
                    } else {
                        (ax * ax + ay * ay).cmp(&(bx * bx + by * by))
                    }
                });
                pts
            }
            6..=7 => {
                let k = r.range(3, 5.min(maxk.max(3)));
                (0..k).map(|_| (r.range(x0, x1), r.range(y0, y1))).collect()
            }
            _ => {
                let (a, b) = ((r.range(x0, x1), r.range(y0, y1)), (r.range(x0, x1), r.range(y0, y1)));
                if a.0 == b.0 || a.1 == b.1 {
                    continue;
                }
                let mut v = IG::rect_ring(a, b);
                v.pop();
                if r.chance(1, 2) && v[1].0 - v[0].0 >= 2 {
                    let mx = r.range(v[0].0 + 1, v[1].0 - 1);
                    v.insert(1, (mx, v[0].1)); // collinear extra vertex
                }
                v
            }
        };
        let ring = finish(r, v);
        if ring_simple_fast(&ring) {
            return Some(ring);
        }
    }
    None
}
/// valid polygon: simple shell, holes strictly inside, pairwise disjoint and not nested
fn fast_polygon(r: &mut Rng, g: i64, maxk: i64) -> Option<Vec<Vec<IP>>> {
    let ext = fast_ring(r, 0, g, 0, g, maxk)?;
    let mut rings = vec![ext];
    let want = *r.pick(&[0usize, 0, 0, 1, 1, 2, 3, 4]);
    let mut tries = 0;
    while rings.len() < 1 + want && tries < 12 + 10 * want {
        tries += 1;
        let (cx, cy) = (r.range(0, g), r.range(0, g));
        let s = r.range(1, (g / if want > 1 { 3 } else { 2 }).max(1));
        let Some(h) = fast_ring(r, cx, (cx + s).min(g), cy, (cy + s).min(g), 4) else { continue };
        let clash = rings.iter().any(|o| h.windows(2).any(|w| o.windows(2).any(|z| seg_touch(w[0], w[1], z[0], z[1]))));
        if clash || !in_ring(&rings[0], h[0]) {
            continue;
        }
        if rings[1..].iter().any(|o| in_ring(o, h[0]) || in_ring(&h, o[0])) {
            continue;
        }
        rings.push(h);
    }
    Some(rings)
}
fn valid_rings(r: &mut Rng, g: i64) -> Vec<Vec<IP>> {
    if g >= 3 && g <= 12 && r.chance(1, 8) {
        let kind = if r.chance(1, 3) { "Polygon" } else { "PolygonHoles" };
        if let Some(IG::Polygon(rings)) = gen::gen_kind(r, kind, g) {
            return rings;
        }
    }
    for _ in 0..4 {
        if let Some(rings) = fast_polygon(r, g.max(1), 8) {
            return rings;
        }
    }
    let (a, b) = loop {
        let (a, b) = two_distinct(r, g.max(1));
        if a.0 != b.0 && a.1 != b.1 {
            break (a, b);
        }
    };
    vec![IG::rect_ring(a, b)]
}
/// rings of a polygon of positive area: a valid polygon (holes of either winding) plus, sometimes, zero-area holes
fn gen_pos_rings(r: &mut Rng, g: i64) -> Vec<Vec<IP>> {
    let mut rings = valid_rings(r, g);
    if r.chance(1, 6) {
        let h: Vec<IP> = match r.below(4) {
            0 => vec![],
            1 => {
                let q = rp(r, g);
                vec![q; r.range(1, 4) as usize]
            }
            2 => {
                let (a, b) = two_distinct(r, g);
                vec![a, b, a]
            }
            _ => {
                let c = collinear3(r, g, false);
                vec![c[0], c[1], c[2], c[0]]
            }
        };
        let at = r.range(1, rings.len() as i64) as usize;
        rings.insert(at, h);
    }
    rings
}
fn gen_zero_area_rings(r: &mut Rng, g: i64) -> Vec<Vec<IP>> {
    let mut rings = match r.below(6) {
        0 => {
            let (a, b) = two_distinct(r, g);
            vec![vec![a, b, a]]
        }
        1 => {
            let c = collinear3(r, g, true);
            vec![vec![c[0], c[1], c[2], c[0]]]
        }
        2 => {
            // spike: a-b-c-b-a (zero area, three non-collinear coordinates)
            loop {
                let (a, b, c) = (rp(r, g), rp(r, g), rp(r, g));
                if orient_i(a, b, c) != 0 {
                    break vec![vec![a, b, c, b, a]];
                }
            }
        }
        3 => {
            // hole identical to the exterior (same or opposite winding, rotated)
            let ext = valid_rings(r, g)[0].clone();
            let mut h = ext[..ext.len() - 1].to_vec();
            let s = r.below(h.len() as u64) as usize;
            h.rotate_left(s);
            if r.chance(1, 2) {
                h.reverse();
            }
            let f = h[0];
            h.push(f);
            vec![ext, h]
        }
        4 => {
            // two holes tiling a rectangle
            let (x0, y0) = rp(r, g);
            let (w, h) = (r.range(2, 6), r.range(1, 5));
            let m = r.range(1, w - 1);
            let mut ext = IG::rect_ring((x0, y0), (x0 + w, y0 + h));
            let mut h1 = IG::rect_ring((x0, y0), (x0 + m, y0 + h));
            let mut h2 = IG::rect_ring((x0 + m, y0), (x0 + w, y0 + h));
            for q in [&mut ext, &mut h1, &mut h2] {
                if r.chance(1, 2) {
                    q.reverse();
                }
            }
            if r.chance(1, 2) {
                vec![ext, h1, h2]
            } else {
                vec![ext, h2, h1]
            }
        }
        _ => {
            // flat with more vertices: a-b-c-b-a along a line
            let c = collinear3(r, g, false);
            vec![vec![c[0], c[1], c[2], c[1], c[0]]]
        }
    };
    if rings.len() == 1 && r.chance(1, 8) {
        rings.push(vec![]); // empty interior ring
    }
    rings
}
fn gen_point_rings(r: &mut Rng, g: i64) -> Vec<Vec<IP>> {
    let q = rp(r, g);
    vec![vec![q; r.range(1, 4) as usize]]
}
fn gen_empty(r: &mut Rng) -> IG {
    match r.below(12) {
        0 => IG::LineString(vec![]),
        1 => IG::Polygon(vec![]),
        2 => IG::Polygon(vec![vec![], vec![]]),
        3 => IG::MultiPoint(vec![]),
        4 => IG::MultiLineString(vec![]),
        5 => IG::MultiLineString(vec![vec![]; r.range(1, 3) as usize]),
        6 => IG::MultiPolygon(vec![]),
        7 => IG::MultiPolygon(vec![vec![]; r.range(1, 2) as usize]),
        8 => IG::MultiPolygon(vec![vec![vec![]]]),
        9 => IG::Collection(vec![]),
        10 => IG::Collection(vec![IG::Collection(vec![]), IG::LineString(vec![])]),
        _ => IG::Collection(vec![IG::MultiPoint(vec![]), IG::Collection(vec![IG::Polygon(vec![]), IG::Collection(vec![])])]),
    }
}

/// a non-collection geometry whose *effective* dimension is `dim` (-1 empty, 0, 1, 2)
fn gen_leaf(r: &mut Rng, g: i64, dim: i32) -> IG {
    match dim {
        2 => match r.below(10) {
            0..=3 => IG::Polygon(gen_pos_rings(r, g)),
            4..=5 => loop {
                let (a, b) = two_distinct(r, g);
                if a.0 != b.0 && a.1 != b.1 {
                    break IG::Rect(a, b);
                }
            },
            6..=7 => loop {
                let (a, b, c) = (rp(r, g), rp(r, g), rp(r, g));
                if orient_i(a, b, c) != 0 {
                    break IG::Triangle(a, b, c);
                }
            },
            _ => {
                // members in disjoint cells of a 3x3 grid; sometimes degenerate or empty members too
                let n = r.range(1, 3) as usize;
                let mut cells: Vec<(i64, i64)> = (0..3).flat_map(|x| (0..3).map(move |y| (x, y))).collect();
                r.shuffle(&mut cells);
                let mut ms = vec![];
                for i in 0..n {
                    let (cx, cy) = cells[i];
                    let rings = gen_pos_rings(r, g);
                    ms.push(rings.iter().map(|q| q.iter().map(|p| (p.0 + cx * (g + 2), p.1 + cy * (g + 2))).collect()).collect::<Vec<Vec<IP>>>());
                }
                if r.chance(1, 4) {
                    let extra = match r.below(3) {
                        0 => gen_zero_area_rings(r, g),
                        1 => gen_point_rings(r, g),
                        _ => vec![],
                    };
                    let at = r.range(0, ms.len() as i64) as usize;
                    ms.insert(at, extra);
                }
                IG::MultiPolygon(ms)
            }
        },
        1 => match r.below(12) {
            0..=1 => {
                let (a, b) = two_distinct(r, g);
                IG::Line(a, b)
            }
            2..=4 => IG::LineString(gen_ls(r, g, 7)),
            5..=6 => {
                let n = r.range(1, 3);
                let mut ms: Vec<Vec<IP>> = (0..n).map(|_| gen_ls(r, g, 5)).collect();
                if r.chance(1, 3) {
                    let extra = match r.below(3) {
                        0 => vec![],
                        1 => vec![rp(r, g)],
                        _ => vec![rp(r, g); 3],
                    };
                    let at = r.range(0, ms.len() as i64) as usize;
                    ms.insert(at, extra);
                }
                IG::MultiLineString(ms)
            }
            7..=8 => IG::Polygon(gen_zero_area_rings(r, g)),
            9 => {
                let (a, b) = two_distinct(r, g);
                if r.chance(1, 2) {
                    IG::Rect(a, (a.0, b.1 + if a.1 == b.1 { 1 } else { 0 }))
                } else {
                    IG::Rect(a, (b.0 + if a.0 == b.0 { 1 } else { 0 }, a.1))
                }
            }
            10 => {
                let c = collinear3(r, g, true);
                IG::Triangle(c[0], c[1], c[2])
            }
            _ => {
                let n = r.range(1, 3);
                let mut ms: Vec<Vec<Vec<IP>>> = (0..n).map(|_| gen_zero_area_rings(r, g)).collect();
                if r.chance(1, 3) {
                    let extra = if r.chance(1, 2) { gen_point_rings(r, g) } else { vec![] };
                    ms.push(extra);
                }
                IG::MultiPolygon(ms)
            }
        },
        0 => match r.below(14) {
            0..=1 => IG::Point(rp(r, g)),
            2..=4 => IG::MultiPoint((0..r.range(1, 5)).map(|_| rp(r, g)).collect()),
            5 => {
                let q = rp(r, g);
                IG::Line(q, q)
            }
            6 => IG::LineString(vec![rp(r, g)]),
            7 => IG::LineString(vec![rp(r, g); 2]),
            8 => IG::LineString(vec![rp(r, g); r.range(3, 4) as usize]),
            9 => IG::Polygon(gen_point_rings(r, g)),
            10 => {
                let q = rp(r, g);
                IG::Rect(q, q)
            }
            11 => {
                let q = rp(r, g);
                IG::Triangle(q, q, q)
            }
            12 => {
                let n = r.range(1, 3);
                IG::MultiLineString((0..n).map(|_| vec![rp(r, g); *r.pick(&[1usize, 1, 2, 3])]).collect())
            }
            _ => {
                let n = r.range(1, 3);
                IG::MultiPolygon((0..n).map(|_| gen_point_rings(r, g)).collect())
            }
        },
        _ => gen_empty(r),
    }
}

const PROFILES: [[u64; 4]; 8] = [
    // weights of member dimension: empty, 0, 1, 2
    [1, 3, 3, 3],
    [1, 3, 3, 3],
    [1, 4, 4, 0],
    [1, 5, 0, 0],
    [0, 0, 3, 3],
    [1, 4, 0, 3],
    [5, 0, 0, 0],
    [3, 3, 0, 0],
];
fn gen_tree(r: &mut Rng, g: i64, depth_left: usize, prof: &[u64; 4]) -> IG {
    let n = *r.pick(&[0usize, 1, 2, 2, 3, 3, 4, 5]);
    let total: u64 = prof.iter().sum();
    let mut v = vec![];
    for _ in 0..n {
        if depth_left > 1 && r.chance(3, 10) {
            v.push(gen_tree(r, g, depth_left - 1, prof));
            continue;
        }
        let mut x = r.below(total);
        let mut dim = -1;
        for (i, &w) in prof.iter().enumerate() {
            if x < w {
                dim = i as i32 - 1;
                break;
            }
            x -= w;
        }
        let leaf = gen_leaf(r, g, dim);
        v.push(leaf.translate(r.range(-g, g), r.range(-g, g)));
    }
    IG::Collection(v)
}

fn too_big(g: &IG) -> bool {
    g.coords().len() > 4000
}

pub fn gen_case(r: &mut Rng, thorough: bool) -> Case {
    let g = *r.pick(&[1i64, 2, 3, 4, 4, 5, 6, 8, 8, 12]);
    // thorough: deeper trees and a larger share of many-coordinate inputs
    let sel = if thorough && r.chance(1, 10) { 99 } else { r.below(100) };
    let stratum = if sel < 42 { "collection_tree" } else if sel < 88 { "single_geometry" } else if sel < 96 { "wide_lattice(odd factor up to 2^24+3)" } else { "many_coordinates" };
    let geom = if sel < 42 {
        let depth = if thorough { *r.pick(&[1usize, 2, 2, 3, 3, 4, 4, 5, 6]) } else { *r.pick(&[1usize, 1, 2, 2, 3, 3, 4, 4]) };
        let prof = *r.pick(&PROFILES);
        gen_tree(r, g, depth, &prof)
    } else if sel < 88 {
        let dim = *r.pick(&[2, 2, 2, 2, 1, 1, 1, 0, 0, -1]);
        gen_leaf(r, g, dim)
    } else if sel < 96 {
        // wide lattices: a small geometry blown up by an odd factor F, so that the products in the moment
        // sums no longer fit 53 bits (E up to 2^28) while validity is preserved. Polygons whose zero area
        // is the result of cancellation between rings are left out: at this size the f64 ring areas round.
        let f = *r.pick(&[(1i64 << 10) + 1, (1 << 16) + 1, (1 << 20) + 1, (1 << 24) + 3]);
        let small = loop {
            let c = if r.chance(1, 3) {
                let prof = *r.pick(&PROFILES);
                gen_tree(r, g, 2, &prof)
            } else {
                let dim = *r.pick(&[2, 2, 2, 1, 1, 0]);
                gen_leaf(r, g, dim)
            };
            if !analyse(&c).flags.contains("deg:polygon.covered_by_holes") {
                break c;
            }
        };
        small.map(&|q| (q.0 * f, q.1 * f))
    } else {
        // many coordinates
        let nmax = if thorough { 400 } else { 120 };
        match r.below(6) {
            // a polygon whose shell or hole is a ring of realistic length (a count just beyond a power of two, or 130-700
            // coordinates; a star, or a rectangle with a vertex at every lattice step), and a long simple line string
            4 => {
                let n = crate::gen::long_count(r);
                let ring = crate::gen::long_ring(r, n);
                let (x0, x1) = (ring.iter().map(|p| p.0).min().unwrap(), ring.iter().map(|p| p.0).max().unwrap());
                let (y0, y1) = (ring.iter().map(|p| p.1).min().unwrap(), ring.iter().map(|p| p.1).max().unwrap());
                if r.chance(1, 2) {
                    IG::Polygon(vec![ring])
                } else {
                    IG::Polygon(vec![vec![(x0 - 3, y0 - 3), (x1 + 3, y0 - 3), (x1 + 3, y1 + 3), (x0 - 3, y1 + 3), (x0 - 3, y0 - 3)], ring])
                }
            }
            5 => {
                let n = crate::gen::long_count(r) as i64;
                IG::LineString((0..n).map(|i| (i, if i % 2 == 0 { 0 } else { r.range(1, 3) })).collect())
            }
            0 => IG::LineString((0..r.range(20, nmax)).map(|_| rp(r, 60)).collect()),
            1 => IG::MultiPoint((0..r.range(20, nmax)).map(|_| rp(r, 60)).collect()),
            2 => match fast_polygon(r, 40, 24) {
                Some(rings) => IG::Polygon(rings),
                None => IG::Point((1, 1)),
            },
            _ => IG::MultiLineString((0..r.range(5, 30)).map(|_| gen_ls(r, 30, 6)).collect()),
        }
    };
    let geom = if too_big(&geom) { IG::Point((0, 0)) } else { geom };
    let lat = Lat::random(r);
    let mut lat_t = Lat::random(r);
    lat_t.sh = lat.sh;
    if lat_t.ox == lat.ox && lat_t.oy == lat.oy {
        lat_t.ox += r.range(1, 1000);
        lat_t.oy -= r.range(1, 1000);
    }
    let mut lat_s = lat;
    while lat_s.sh == lat.sh {
        lat_s.sh = r.range(-30, 30) as i32;
    }
    let kint = *r.pick(&[3i64, 5, 6, 7]);
    let raw_tri = r.chance(1, 2);
    Case { stratum, raw_tri, g: geom, lat, lat_t, lat_s, kint }
}

/// one line of the cross-check dump (see xcheck_c06.py)
fn dump_line(cs: &Case) -> String {
    let p = analyse(&cs.g);
    json!({"g": cs.g.json(), "dim": p.dim(), "ood": p.ood.is_some(), "base": [p.base.0, p.base.1],
           "expected_rel_base": if p.ood.is_some() { vec![] } else { expected(&p).iter().map(|e| vec![e.0, e.1]).collect::<Vec<_>>() }})
    .to_string()
}

// ------------------------------------------------------------------------------------------
// flat shapes with MIXED magnitudes: coordinates t*(dx,dy) with t = m*2^e (m small, e in -20..44) are exactly
// collinear, but their differences round - "has this ring / triangle any area" must still be decided exactly.
// The outline of a flat closed ring with parameters t_0..t_{n-1} has the centroid
// sum |t_{i+1}-t_i| (t_i+t_{i+1})/2 / sum |t_{i+1}-t_i| along the line (for a triangle: the midpoint of its extremes).
// ------------------------------------------------------------------------------------------
fn dup_ring_starts(g: &IG) -> IG {
    let dup = |rings: &Vec<Vec<IP>>| -> Vec<Vec<IP>> {
        rings
            .iter()
            .map(|r| {
                let mut v = r.clone();
                if !v.is_empty() {
                    v.insert(1, v[0]);
                }
                v
            })
            .collect()
    };
    match g {
        IG::Polygon(r) => IG::Polygon(dup(r)),
        IG::MultiPolygon(ms) => IG::MultiPolygon(ms.iter().map(|r| dup(r)).collect()),
        IG::Collection(v) => IG::Collection(v.iter().map(dup_ring_starts).collect()),
        x => x.clone(),
    }
}

pub fn check_flat_mixed(sh: &mut Shard, ts: &[(i64, i32)], d: (i64, i64), kind: u8, verbose: bool) {
    use geo::{Centroid, Coord, Geometry, GeometryCollection, LineString, Point, Polygon, Triangle};
    let tv: Vec<f64> = ts.iter().map(|&(m, e)| m as f64 * crate::q::pow2(e)).collect();
    let c = |t: f64| Coord { x: t * d.0 as f64, y: t * d.1 as f64 }; // exact: |d| <= 7, m < 2^20
    let n = tv.len();
    let (mut num, mut den) = (0.0f64, 0.0f64);
    for i in 0..n {
        let (a, b) = (tv[i], tv[(i + 1) % n]);
        let l = (b - a).abs();
        num += l * (a + b) * 0.5;
        den += l;
    }
    if den == 0.0 {
        return;
    }
    let texp = num / den;
    let tmax = tv.iter().fold(0.0f64, |a, b| a.max(b.abs()));
    let tol = 8.0 * n as f64 * U * tmax * (d.0.abs().max(d.1.abs()) as f64);
    let ring = || LineString::new(tv.iter().chain(std::iter::once(&tv[0])).map(|&t| c(t)).collect());
    let (name, got): (&str, Result<Option<Point<f64>>, String>) = match kind {
        0 if n == 3 => ("Triangle", call(|| Some(Triangle(c(tv[0]), c(tv[1]), c(tv[2])).centroid()))),
        1 => ("Polygon", call(|| Polygon::new(ring(), vec![]).centroid())),
        2 => ("GeometryCollection[Point,Polygon]", call(|| GeometryCollection::new_from(vec![Geometry::Point(Point::new(tmax * 3.0, 1.0)), Geometry::Polygon(Polygon::new(ring(), vec![]))]).centroid())),
        _ => ("LineString(closed)", call(|| ring().centroid())),
    };
    sh.eval(1);
    let det = |got: String| json!({"property": "C06", "check": "zero_area_outline.mixed_magnitude", "kind": "flat_mixed", "ts": ts, "d": [d.0, d.1], "shape": kind, "site": name,
        "expected": format!("{:?} (outline centroid of the flat ring, tolerance {:e})", c(texp), tol), "got": got, "coords": format!("{:?}", tv.iter().map(|&t| c(t)).collect::<Vec<_>>())});
    match got {
        Ok(Some(p)) => {
            let e = c(texp);
            let err = (p.x() - e.x).abs().max((p.y() - e.y).abs());
            if verbose {
                println!("{name}: got {:?}, expected {:?}, err {:e}, tol {:e}", p, e, err, tol);
            }
            sh.maximum("flat_mixed.err_over_tol", err / tol);
            if !(err <= tol) {
                sh.violation(&format!("zero_area_outline.mixed_magnitude|{name}|-"), det(format!("{:?} (off by {:e})", p, err)));
            }
        }
        Ok(None) => sh.violation(&format!("none_iff_empty|{name}|-"), det("None".into())),
        Err(m) => sh.violation(&format!("panic|{name}|-"), det(m)),
    }
    sh.class(&format!("flat_mixed:{name}"));
}

pub fn run(ctx: &Ctx, sh: &mut Shard) {
    let thorough = ctx.tier == "thorough";
    let mut dump = std::env::var("GVH_C06_DUMP").ok().and_then(|f| std::fs::File::create(f).ok());
    sh.notes.insert("tolerance".into(), json!({"formula": "u*(KM*(m+2)*M*cond + KE*n*E*max(1,shape))", "KM": KM, "KE": KE, "u": U, "units": "lattice units (multiply by 2^sh)"}));
    for k in ctx.case_indices() {
        if sh.cases >= ctx.budget {
            break;
        }
        ctx.mark_case(k);
        let mut r = Rng::derive(ctx.seed, ctx.shard, k);
        sh.cases += 1;
        if k % 16 == 5 {
            let n = r.range(3, 5) as usize;
            let ts: Vec<(i64, i32)> = (0..n).map(|_| (r.range(-(1 << 12), 1 << 12), *r.pick(&[-20, -3, 0, 0, 7, 20, 33, 40, 44]))).collect();
            let d = loop {
                let d = (r.range(-7, 7), r.range(-7, 7));
                if d != (0, 0) {
                    break d;
                }
            };
            check_flat_mixed(sh, &ts, d, r.below(4) as u8, false);
            continue;
        }
        // a panic in here is a harness error (geo calls are wrapped individually): stop loudly
        match guard(|| {
            let mut cs = gen_case(&mut r, thorough);
            // one case in six: every polygon ring written with its start coordinate twice ([A, A, B, ..., A]): no point and
            // no area added, but whatever looks at "the first two coordinates" of a ring now sees a zero-length segment
            if r.chance(1, 6) {
                cs.g = dup_ring_starts(&cs.g);
            }
            if let Some(f) = dump.as_mut() {
                use std::io::Write;
                let _ = writeln!(f, "{}", dump_line(&cs));
            }
            check_case(sh, &cs, false);
        }) {
            Ok(()) => {}
            Err(Caught::QOverflow) | Err(Caught::EpsFail) => sh.inconclusive("harness:exact arithmetic overflow"),
            Err(e) => {
                eprintln!("C06 harness error in case k={k} (seed {} shard {}): {e:?} at {}", ctx.seed, ctx.shard, last_panic_loc());
                std::process::exit(2);
            }
        }
    }
}

pub fn replay(v: &Value, sh: &mut Shard) {
    if v["kind"].as_str() == Some("flat_mixed") {
        let ts: Vec<(i64, i32)> = v["ts"].as_array().unwrap().iter().map(|x| (x[0].as_i64().unwrap(), x[1].as_i64().unwrap() as i32)).collect();
        check_flat_mixed(sh, &ts, (v["d"][0].as_i64().unwrap(), v["d"][1].as_i64().unwrap()), v["shape"].as_u64().unwrap() as u8, true);
        return;
    }
    let g = IG::from_json(&v["g"]).expect("g");
    let lat = Lat::from_json(&v["lat"]);
    let lat_t = if v.get("lat_t").is_some() { Lat::from_json(&v["lat_t"]) } else { Lat { ox: lat.ox + 1000, oy: lat.oy - 1000, sh: lat.sh, shear: 0 } };
    let lat_s = if v.get("lat_s").is_some() { Lat::from_json(&v["lat_s"]) } else { Lat { ox: lat.ox, oy: lat.oy, sh: lat.sh + 3, shear: 0 } };
    let kint = v["kint"].as_i64().unwrap_or(3);
    let raw_tri = v["raw_triangles"].as_bool().unwrap_or(false);
    let cs = Case { stratum: "replay", raw_tri, g, lat, lat_t, lat_s, kint };
    check_case(sh, &cs, true);
}
