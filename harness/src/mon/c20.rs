//! C20 — results are a function of the inputs alone.
//! `ops(seed, scale)` is a fixed, seeded list of (name, thunk) pairs; every thunk returns an FNV digest
//! over the output's structure and coordinate bit patterns IN ORDER. Three observers use it:
//!   * `run` (in-process): every call is made twice on equal input and the digests must agree;
//!   * `gvh digest-run`: prints one "name digest" line per call — the driver runs it in fresh processes
//!     under RAYON_NUM_THREADS in {1,2,3,7,16} and compares the logs line by line (offline checker);
//!   * the same binary under TSan / Miri / memcheck (driver legs).
use crate::gen::*;
use crate::ig::*;
use crate::report::*;
use crate::rng::{Fnv, Rng};
use geo::algorithm::triangulate_delaunay::DelaunayTriangulationConfig;
use geo::bool_ops::{unary_union, BooleanOps};
use geo::{
    Centroid, ConcaveHull, ConvexHull, Coord, CoordsIter, Geometry, InteriorPoint, KNearestConcaveHull, LineString, MultiLineString, MultiPoint, MultiPolygon, OutlierDetection, Point, Polygon, Relate, Simplify, SimplifyVw,
    SimplifyVwPreserve, StitchTriangles, Triangle, TriangulateDelaunay, TriangulateEarcut,
};
use rayon::prelude::*;
use serde_json::{json, Value};

pub fn dig_ls(h: &mut Fnv, l: &LineString<f64>) {
    h.u64(l.0.len() as u64);
    for c in &l.0 {
        h.f64(c.x);
        h.f64(c.y);
    }
}
pub fn dig_poly(h: &mut Fnv, p: &Polygon<f64>) {
    dig_ls(h, p.exterior());
    h.u64(p.interiors().len() as u64);
    for i in p.interiors() {
        dig_ls(h, i);
    }
}
pub fn dig_mp(mp: &MultiPolygon<f64>) -> u64 {
    let mut h = Fnv::new();
    h.u64(mp.0.len() as u64);
    for p in &mp.0 {
        dig_poly(&mut h, p);
    }
    h.0
}
fn dig_tris(ts: &[Triangle<f64>]) -> u64 {
    let mut h = Fnv::new();
    h.u64(ts.len() as u64);
    for t in ts {
        for c in [t.0, t.1, t.2] {
            h.f64(c.x);
            h.f64(c.y);
        }
    }
    h.0
}
fn dig_f(v: &[f64]) -> u64 {
    let mut h = Fnv::new();
    for x in v {
        h.f64(*x);
    }
    h.0
}

/// noisy circle: a simple polygon with n vertices (star-shaped about the centre)
pub fn noisy_circle(r: &mut Rng, n: usize, cx: f64, cy: f64, rad: f64) -> Polygon<f64> {
    let mut v = Vec::with_capacity(n + 1);
    for i in 0..n {
        let a = (i as f64) / (n as f64) * std::f64::consts::TAU;
        let rr = rad * (1.0 + 0.05 * (r.f01() - 0.5));
        v.push(Coord { x: cx + rr * a.cos(), y: cy + rr * a.sin() });
    }
    Polygon::new(LineString::new(v), vec![])
}
fn rand_points(r: &mut Rng, n: usize, grid: Option<i64>) -> Vec<Point<f64>> {
    (0..n)
        .map(|_| match grid {
            Some(g) => Point::new(r.range(0, g) as f64, r.range(0, g) as f64),
            None => Point::new(r.f01() * 100.0, r.f01() * 100.0),
        })
        .collect()
}
fn squares(n: usize, step: f64, size: f64) -> Vec<Polygon<f64>> {
    (0..n)
        .map(|i| {
            let (x, y) = ((i % 5) as f64 * step, (i / 5) as f64 * step);
            Polygon::new(LineString::new(vec![Coord { x, y }, Coord { x: x + size, y }, Coord { x: x + size, y: y + size }, Coord { x, y: y + size }, Coord { x, y }]), vec![])
        })
        .collect()
}

pub type Op = (String, Box<dyn Fn() -> u64 + Send + Sync>);

/// side channel of the `history.*` ops: an op that owns a stateful object (a prepared detector) compares the answer
/// to one query before and after other queries on the same object, and with a fresh object; a difference is noted here
pub static HISTORY_MISMATCH: std::sync::Mutex<Vec<String>> = std::sync::Mutex::new(Vec::new());
fn note_history(msg: String) {
    if let Ok(mut g) = HISTORY_MISMATCH.lock() {
        if g.len() < 16 {
            g.push(msg);
        }
    }
}

/// scale: 0 = toy (Miri), 1 = small (quick), 2 = adds the large inputs that switch on i_overlay's
/// parallel splitter (>= 8000 segments) and parallel sort (> 32768 segments)
pub fn ops(seed: u64, scale: u32) -> Vec<Op> {
    let mut v: Vec<Op> = vec![];
    let mut r = Rng::derive(seed, 0xC20, 0);
    let mut add = |name: String, f: Box<dyn Fn() -> u64 + Send + Sync>| v.push((name, f));
    // ---- lattice operand pairs (coincidence-rich): boolean ops, relate, unary_union
    let npairs = [2, 24, 24][scale as usize];
    for i in 0..npairs {
        let g = 6;
        let a = loop {
            let kind = *r.pick(&["Polygon", "PolygonHoles", "MultiPolygon"]);
            if let Some(x) = gen_kind(&mut r, kind, g) {
                break x;
            }
        };
        let b = loop {
            let c = partner(&mut r, &a, g);
            if matches!(c, IG::Polygon(_) | IG::MultiPolygon(_)) {
                break c;
            }
        };
        let (ga, gb) = (super::c04::to_mp(&a.to_geo(&Lat::ID)), super::c04::to_mp(&b.to_geo(&Lat::ID)));
        for (k, name) in ["intersection", "union", "difference", "xor"].iter().enumerate() {
            let (ga, gb) = (ga.clone(), gb.clone());
            add(
                format!("boolop.{name}.lattice{i}"),
                Box::new(move || {
                    dig_mp(&match k {
                        0 => ga.intersection(&gb),
                        1 => ga.union(&gb),
                        2 => ga.difference(&gb),
                        _ => ga.xor(&gb),
                    })
                }),
            );
        }
        let (ga2, gb2) = (ga.clone(), gb.clone());
        add(format!("relate.lattice{i}"), Box::new(move || crate::rng::fnv(super::c01::im_string(&ga2.relate(&gb2)).as_bytes())));
        let (ga3, gb3) = (ga.clone(), gb.clone());
        add(format!("unary_union.pair{i}"), Box::new(move || dig_mp(&unary_union(ga3.0.iter().chain(gb3.0.iter())))));
    }
    // ---- equal operands at different places in memory: the same object on both sides against a separate copy of it, and
    // the same listing of members whose storage runs in the opposite address order (a selection, a query result)
    for i in 0..[1, 6, 6][scale as usize] {
        let g = 6;
        let a = loop {
            let kind = *r.pick(&["Polygon", "PolygonHoles", "MultiPolygon", "MultiPolygon"]);
            if let Some(x) = gen_kind(&mut r, kind, g) {
                break x;
            }
        };
        let b = loop {
            let c = partner(&mut r, &a, g);
            if matches!(c, IG::Polygon(_) | IG::MultiPolygon(_)) {
                break c;
            }
        };
        let (ga, gb) = (super::c04::to_mp(&a.to_geo(&Lat::ID)), super::c04::to_mp(&b.to_geo(&Lat::ID)));
        // members as written (edge-sharing, overlapping, any ring start): nothing here is in the overlay's output form
        let mut members: Vec<Polygon<f64>> = ga.0.iter().chain(gb.0.iter()).cloned().collect();
        let both = MultiPolygon::new(members.clone());
        for (k, name) in ["intersection", "union", "difference", "xor"].iter().enumerate() {
            let both = both.clone();
            add(
                format!("placement.boolop.{name}.{i}"),
                Box::new(move || {
                    let op = |x: &MultiPolygon<f64>, y: &MultiPolygon<f64>| match k {
                        0 => x.intersection(y),
                        1 => x.union(y),
                        2 => x.difference(y),
                        _ => x.xor(y),
                    };
                    let copy = Box::new(both.clone());
                    let (aliased, separate, swapped) = (dig_mp(&op(&both, &both)), dig_mp(&op(&both, &copy)), dig_mp(&op(&copy, &both)));
                    if aliased != separate || swapped != separate {
                        note_history(format!("MultiPolygon::{name}(x, y) with y the SAME object as x gives {aliased:016x}, with y a separate equal copy {separate:016x}, operands swapped {swapped:016x}"));
                    }
                    // the Polygon entry point
                    let p = &both.0[0];
                    let pc = Box::new(p.clone());
                    let opp = |x: &Polygon<f64>, y: &Polygon<f64>| match k {
                        0 => x.intersection(y),
                        1 => x.union(y),
                        2 => x.difference(y),
                        _ => x.xor(y),
                    };
                    let (pa, ps) = (dig_mp(&opp(p, p)), dig_mp(&opp(p, &pc)));
                    if pa != ps {
                        note_history(format!("Polygon::{name}(x, y) with y the SAME object as x gives {pa:016x}, with y a separate equal copy {ps:016x}"));
                    }
                    separate ^ ps.rotate_left(1)
                }),
            );
        }
        // mixed windings: every second member reversed (which ring decides the fill rule must depend on the listing only)
        for (j, m) in members.iter_mut().enumerate() {
            if j % 2 == 1 {
                m.exterior_mut(|e| e.0.reverse());
            }
        }
        if i % 2 == 0 && members.len() >= 2 {
            members.swap(0, 1);
        }
        add(
            format!("placement.unary_union.{i}"),
            Box::new(move || {
                let fwd: Vec<Polygon<f64>> = members.clone();
                let bwd: Vec<Polygon<f64>> = members.iter().rev().cloned().collect();
                let boxed: Vec<Box<Polygon<f64>>> = members.iter().rev().map(|p| Box::new(p.clone())).collect();
                let as_slice = dig_mp(&unary_union(&fwd));
                let rising: Vec<&Polygon<f64>> = fwd.iter().collect();
                let falling: Vec<&Polygon<f64>> = bwd.iter().rev().collect();
                let scattered: Vec<&Polygon<f64>> = boxed.iter().rev().map(|b| &**b).collect();
                let (d1, d2, d3) = (dig_mp(&unary_union(rising)), dig_mp(&unary_union(falling)), dig_mp(&unary_union(scattered)));
                if d1 != as_slice || d2 != as_slice || d3 != as_slice {
                    note_history(format!("unary_union of the same {} members listed in the same order: slice {as_slice:016x}, references with rising addresses {d1:016x}, with falling addresses {d2:016x}, separately boxed {d3:016x}", fwd.len()));
                }
                // a member listed twice: the same object twice, or the object and an equal copy of it
                let extra = Box::new(fwd[0].clone());
                let twice: Vec<&Polygon<f64>> = std::iter::once(&fwd[0]).chain(std::iter::once(&fwd[0])).chain(fwd[1..].iter()).collect();
                let copy: Vec<&Polygon<f64>> = std::iter::once(&fwd[0]).chain(std::iter::once(&*extra)).chain(fwd[1..].iter()).collect();
                let (t1, t2) = (dig_mp(&unary_union(twice)), dig_mp(&unary_union(copy)));
                if t1 != t2 {
                    note_history(format!("unary_union with the first member listed twice: the same object twice {t1:016x}, the object and an equal copy {t2:016x}"));
                }
                as_slice ^ t2.rotate_left(1)
            }),
        );
    }
    // ---- many-member inputs: hash-order dependence shows with probability 1 - 1/12!
    // (30 squares: 60 triangles / 180 edges - large enough for any size-dependent path inside stitching)
    for (n, step, size, tag) in [(12usize, 3.0, 1.0, "disjoint"), (12, 1.0, 1.0, "edge_sharing"), (15, 0.75, 1.0, "overlapping"), (30, 3.0, 1.0, "disjoint_many")] {
        let sq = squares(n, step, size);
        let sq1 = sq.clone();
        add(format!("unary_union.{n}squares.{tag}"), Box::new(move || dig_mp(&unary_union(&sq1))));
        let tris: Vec<Triangle<f64>> = sq.iter().flat_map(|p| p.earcut_triangles()).collect();
        if tag != "overlapping" {
            let t1 = tris.clone();
            add(format!("stitch.{n}squares.{tag}"), Box::new(move || t1.stitch_triangulation().map(|mp| dig_mp(&mp)).unwrap_or(0xE)));
        }
        let mp = MultiPolygon::new(sq.clone());
        let mp1 = mp.clone();
        add(format!("constrained_triangulation.{n}squares.{tag}"), Box::new(move || mp1.constrained_triangulation(DelaunayTriangulationConfig::default()).map(|t| dig_tris(&t)).unwrap_or(0xE)));
        let mp2 = mp.clone();
        add(format!("par_iter.map.collect.{n}squares.{tag}"), Box::new(move || {
            let cs: Vec<Option<Point<f64>>> = mp2.par_iter().map(|p| p.centroid()).collect();
            let mut h = Fnv::new();
            for c in cs {
                let c = c.unwrap();
                h.f64(c.x());
                h.f64(c.y());
            }
            h.0
        }));
    }
    // results with many members (>= 64, up to 150): whatever converts or collects the result shapes must keep their order
    if scale >= 1 {
        for (n, tag) in [(70usize, "70"), (150, "150")] {
            let sq = squares(n, 3.0, 1.0);
            let sq1 = sq.clone();
            add(format!("unary_union.{tag}squares.disjoint"), Box::new(move || dig_mp(&unary_union(&sq1))));
            let a = MultiPolygon::new(sq.clone());
            // the same squares moved by half a side: n overlapping pairs, results of n .. 3n members
            let b = MultiPolygon::new(sq.iter().map(|p| { use geo::Translate; p.translate(0.5, 0.5) }).collect());
            for (k, name) in ["intersection", "union", "difference", "xor"].iter().enumerate() {
                let (a, b) = (a.clone(), b.clone());
                add(format!("boolop.{name}.{tag}squares"), Box::new(move || {
                    dig_mp(&match k {
                        0 => a.intersection(&b),
                        1 => a.union(&b),
                        2 => a.difference(&b),
                        _ => a.xor(&b),
                    })
                }));
            }
        }
    }
    // polygon with holes through stitch (donut ordering)
    {
        let p = Polygon::new(
            LineString::from(vec![(0.0, 0.0), (20.0, 0.0), (20.0, 20.0), (0.0, 20.0), (0.0, 0.0)]),
            (0..6).map(|i| { let x = 2.0 + 3.0 * i as f64; LineString::from(vec![(x, 2.0), (x + 1.0, 2.0), (x + 1.0, 3.0 + i as f64), (x, 3.0), (x, 2.0)]) }).collect(),
        );
        let p1 = p.clone();
        add("stitch.polygon_6_holes".into(), Box::new(move || {
            let t = p1.constrained_triangulation(DelaunayTriangulationConfig::default()).unwrap();
            t.stitch_triangulation().map(|mp| dig_mp(&mp)).unwrap_or(0xE)
        }));
        let p2 = p.clone();
        add("earcut.polygon_6_holes".into(), Box::new(move || dig_tris(&p2.earcut_triangles())));
        let p3 = p.clone();
        add("unconstrained_triangulation.polygon_6_holes".into(), Box::new(move || p3.unconstrained_triangulation().map(|t| dig_tris(&t)).unwrap_or(0xE)));
    }
    // a triangulation with a zero-area triangle on a T-junction (what a triangulator emits there): the first call in a
    // process must answer like every later one
    {
        let t = |a: (f64, f64), b: (f64, f64), c: (f64, f64)| Triangle::new(Coord { x: a.0, y: a.1 }, Coord { x: b.0, y: b.1 }, Coord { x: c.0, y: c.1 });
        let k = r.range(1, 5) as f64;
        let tris = vec![t((0.0, 0.0), (2.0 * k, -2.0 * k), (4.0 * k, 0.0)), t((0.0, 0.0), (2.0 * k, 0.0), (2.0 * k, 2.0 * k)), t((2.0 * k, 0.0), (4.0 * k, 0.0), (2.0 * k, 2.0 * k)), Triangle(Coord { x: 0.0, y: 0.0 }, Coord { x: 2.0 * k, y: 0.0 }, Coord { x: 4.0 * k, y: 0.0 })];
        add("stitch.kite_with_zero_area_triangle".into(), Box::new(move || tris.stitch_triangulation().map(|mp| dig_mp(&mp)).unwrap_or(0xE)));
    }
    // ---- the deprecated TriangulateSpade entry points (their own copy of the snapping code), with a caller-supplied snap
    // radius on half-lattice rings: vertices exactly equidistant from two registered coordinates inside the radius
    {
        #[allow(deprecated)]
        use geo::algorithm::triangulate_spade::{SpadeTriangulationConfig, TriangulateSpade};
        for i in 0..[1, 3, 3][scale as usize] {
            let a = loop {
                if let Some(x) = gen_kind(&mut r, "Polygon", 5) {
                    break x;
                }
            };
            if let geo::Geometry::Polygon(p) = a.to_geo(&Lat { ox: 0, oy: 0, sh: -1, shear: 0 }) {
                // insert the midpoint of every second edge plus a point 0.25 off it: ties and near ties within radius 1
                let mut v: Vec<Coord<f64>> = vec![];
                for (j, l) in p.exterior().lines().enumerate() {
                    v.push(l.start);
                    if j % 2 == 0 {
                        v.push(Coord { x: (l.start.x + l.end.x) / 2.0, y: (l.start.y + l.end.y) / 2.0 });
                    }
                }
                let q = Polygon::new(LineString::new(v), vec![]);
                for (radius, rn) in [(1.0, "r1"), (0.25, "r025")] {
                    let q1 = q.clone();
                    add(format!("legacy_spade.constrained_triangulation.{rn}.{i}"), Box::new(move || {
                        #[allow(deprecated)]
                        let t = TriangulateSpade::constrained_triangulation(&q1, SpadeTriangulationConfig { snap_radius: radius });
                        t.map(|t| dig_tris(&t)).unwrap_or(0xE)
                    }));
                    let q2 = q.clone();
                    add(format!("legacy_spade.constrained_outer_triangulation.{rn}.{i}"), Box::new(move || {
                        #[allow(deprecated)]
                        let t = TriangulateSpade::constrained_outer_triangulation(&q2, SpadeTriangulationConfig { snap_radius: radius });
                        t.map(|t| dig_tris(&t)).unwrap_or(0xE)
                    }));
                }
                let q3 = q.clone();
                add(format!("legacy_spade.unconstrained_triangulation.{i}"), Box::new(move || {
                    #[allow(deprecated)]
                    let t = TriangulateSpade::unconstrained_triangulation(&q3);
                    t.map(|t| dig_tris(&t)).unwrap_or(0xE)
                }));
            }
        }
    }
    // ---- point-set algorithms
    let npts = [12, 300, 300][scale as usize];
    for (i, grid) in [(0, None), (1, Some(12)), (2, Some(40))] {
        let pts = rand_points(&mut r, npts, grid);
        let mpt = MultiPoint::new(pts.clone());
        let m1 = mpt.clone();
        add(format!("concave_hull.{i}"), Box::new(move || { let mut h = Fnv::new(); dig_poly(&mut h, &m1.concave_hull(2.0)); h.0 }));
        let m2 = mpt.clone();
        add(format!("k_nearest_concave_hull.{i}"), Box::new(move || { let mut h = Fnv::new(); dig_poly(&mut h, &m2.k_nearest_concave_hull(3)); h.0 }));
        let m3 = mpt.clone();
        add(format!("convex_hull.{i}"), Box::new(move || { let mut h = Fnv::new(); dig_poly(&mut h, &m3.convex_hull()); h.0 }));
        let m4 = mpt.clone();
        add(format!("outliers.{i}"), Box::new(move || dig_f(&m4.outliers(5.min(npts - 1)))));
        // one prepared detector, several queries: the answer to a query must not depend on the queries made before
        let m7 = mpt.clone();
        let ks: Vec<usize> = (0..4).map(|_| r.range(1, (npts as i64 - 1).min(9)) as usize).collect();
        add(format!("history.prepared_detector.{i}"), Box::new(move || {
            use geo::OutlierDetection;
            let det = m7.prepared_detector();
            let firsts: Vec<Vec<f64>> = ks.iter().map(|&k| det.outliers(k)).collect();
            let mut h = Fnv::new();
            for (j, &k) in ks.iter().enumerate().rev() {
                let again = det.outliers(k);
                let fresh = m7.prepared_detector().outliers(k);
                let oneshot = m7.outliers(k);
                let same = |a: &[f64], b: &[f64]| a.len() == b.len() && a.iter().zip(b).all(|(x, y)| x.to_bits() == y.to_bits());
                if !same(&firsts[j], &again) || !same(&firsts[j], &fresh) || !same(&fresh, &oneshot) {
                    note_history(format!("PreparedDetector::outliers({k}) after queries {:?}: first answer / repeated on the same detector / fresh detector / one-shot differ (first {:?} again {:?} fresh {:?})", ks, &firsts[j][..firsts[j].len().min(4)], &again[..again.len().min(4)], &fresh[..fresh.len().min(4)]));
                }
                h.u64(dig_f(&again));
            }
            h.0
        }));
        let m5 = mpt.clone();
        add(format!("par_iter.multipoint.{i}"), Box::new(move || {
            let xs: Vec<f64> = m5.par_iter().map(|p| p.x() * 3.0 + p.y()).collect();
            dig_f(&xs)
        }));
        let m6 = mpt.clone();
        add(format!("par_iter_mut.multipoint.{i}"), Box::new(move || {
            let mut m = m6.clone();
            m.par_iter_mut().for_each(|p| *p = Point::new(p.y(), p.x() + 1.0));
            let mut h = Fnv::new();
            for p in &m.0 {
                h.f64(p.x());
                h.f64(p.y());
            }
            h.0
        }));
        let ls = LineString::from(pts.iter().map(|p| p.0).collect::<Vec<_>>());
        let l1 = ls.clone();
        add(format!("simplify.{i}"), Box::new(move || { let mut h = Fnv::new(); dig_ls(&mut h, &l1.simplify(1.5)); h.0 }));
        let l2 = ls.clone();
        add(format!("simplify_vw.{i}"), Box::new(move || { let mut h = Fnv::new(); dig_ls(&mut h, &l2.simplify_vw(3.0)); h.0 }));
        let l3 = ls.clone();
        add(format!("simplify_vw_preserve.{i}"), Box::new(move || { let mut h = Fnv::new(); dig_ls(&mut h, &l3.simplify_vw_preserve(3.0)); h.0 }));
        let mls = MultiLineString::new(pts.chunks(5).map(|c| LineString::from(c.iter().map(|p| p.0).collect::<Vec<_>>())).collect());
        add(format!("par_iter.multilinestring.{i}"), Box::new(move || {
            let v: Vec<usize> = mls.par_iter().map(|l| l.coords_count()).collect();
            let mut h = Fnv::new();
            for x in v {
                h.u64(x as u64);
            }
            h.0
        }));
    }
    // ---- interior point / centroid of generated geometries (sweep inside)
    for i in 0..[2, 12, 12][scale as usize] {
        let a = gen_any(&mut r, 6).to_geo(&Lat::ID);
        let a1 = a.clone();
        add(format!("interior_point.{i}"), Box::new(move || match call(|| a1.interior_point()) { Ok(Some(p)) => dig_f(&[p.x(), p.y()]), Ok(None) => 0, Err(_) => 0xE }));
    }
    // ---- large inputs: the rayon stages of i_overlay are only entered from 8 000 / 32 768 segments on
    if scale >= 2 {
        for (n, tag) in [(6000usize, "12k_segments"), (20000, "40k_segments")] {
            let a = noisy_circle(&mut r, n, 0.0, 0.0, 100.0);
            let b = noisy_circle(&mut r, n, 30.0, 10.0, 100.0);
            for (k, name) in ["intersection", "union", "difference", "xor"].iter().enumerate() {
                let (a, b) = (a.clone(), b.clone());
                add(format!("boolop.{name}.{tag}"), Box::new(move || {
                    dig_mp(&match k {
                        0 => a.intersection(&b),
                        1 => a.union(&b),
                        2 => a.difference(&b),
                        _ => a.xor(&b),
                    })
                }));
            }
            let many: Vec<Polygon<f64>> = (0..40).map(|i| noisy_circle(&mut r, n / 20, (i % 8) as f64 * 15.0, (i / 8) as f64 * 15.0, 10.0)).collect();
            add(format!("unary_union.40circles.{tag}"), Box::new(move || dig_mp(&unary_union(&many))));
        }
    }
    v
}

/// in-process monitor. Each round takes one seeded op list and calls every op (a) twice back to back,
/// (b) again after ALL other ops have run, in a shuffled order (equal input, different call history), and
/// (c) once more on a freshly spawned thread (no thread-local history). All digests of one op must agree.
pub fn run(ctx: &Ctx, sh: &mut Shard) {
    let scale = if ctx.tier == "thorough" && ctx.shard < 2 { 2 } else { 1 };
    let mut round = 0u64;
    while sh.cases < ctx.budget {
        let seed = ctx.seed.wrapping_mul(1000003).wrapping_add(ctx.shard * 7919 + round);
        round += 1;
        let list = ops(seed, scale);
        let n = list.len();
        let mut first: Vec<Option<u64>> = vec![None; n];
        let report = |sh: &mut Shard, check: &str, name: &str, a: u64, b: u64| {
            let base = name.split('.').next().unwrap_or("").to_string();
            sh.violation(&format!("{check}|{base}|-"), json!({"property": "C20", "check": check, "op": name, "ops_seed": seed, "scale": scale, "expected": format!("{a:016x}"), "got": format!("{b:016x}")}));
        };
        for (i, (name, f)) in list.iter().enumerate() {
            sh.cases += 1;
            let d1 = call(|| f());
            let d2 = call(|| f());
            sh.eval(1);
            match (d1, d2) {
                (Ok(a), Ok(b)) => {
                    if a != b {
                        report(sh, "repeat_in_process", name, a, b);
                    }
                    first[i] = Some(a);
                    let mut h = Fnv::new();
                    h.str(name);
                    h.u64(a);
                    sh.nontrivial(h.0);
                }
                _ => sh.class(&format!("panic_observed:{}", name.split('.').next().unwrap_or(""))),
            }
            if name.starts_with("history.") || name.starts_with("placement.") {
                let notes: Vec<String> = HISTORY_MISMATCH.lock().map(|mut g| g.drain(..).collect()).unwrap_or_default();
                if let Some(n) = notes.first() {
                    if name.starts_with("history.") {
                        sh.violation("history_dependence|history|-", json!({"property": "C20", "check": "history_dependence", "op": name, "ops_seed": seed, "scale": scale, "expected": "the same answer to the same query on the same object, whatever was asked before", "got": n}));
                    } else {
                        sh.violation(&format!("placement_dependence|{}|-", name.split('.').nth(1).unwrap_or("")), json!({"property": "C20", "check": "placement_dependence", "op": name, "ops_seed": seed, "scale": scale, "expected": "bit-identical output for equal input, wherever the operands are stored and whether or not they are the same object", "got": n}));
                    }
                }
            }
            sh.class(&format!("op:{}", name.split('.').next().unwrap_or("")));
            sh.sample(|| json!({"op": name, "digest": format!("{:016x}", first[i].unwrap_or(0))}));
        }
        // (b) different call history: every op again, in a shuffled order
        let mut order: Vec<usize> = (0..n).collect();
        Rng::derive(seed, 0xB, round).shuffle(&mut order);
        for &i in &order {
            if let (Some(a), Ok(b)) = (first[i], call(|| (list[i].1)())) {
                sh.eval(1);
                if a != b {
                    report(sh, "repeat_after_other_calls", &list[i].0, a, b);
                }
            }
        }
        // (c) a fresh thread has no thread-local history
        for i in (0..n).step_by(3) {
            if let Some(a) = first[i] {
                let f = &list[i].1;
                let b = std::thread::scope(|s| s.spawn(|| call(|| f())).join().ok().and_then(|r| r.ok()));
                sh.eval(1);
                if let Some(b) = b {
                    if a != b {
                        report(sh, "repeat_on_fresh_thread", &list[i].0, a, b);
                    }
                }
            }
        }
        sh.class("round");
    }
}

pub fn replay(v: &Value, sh: &mut Shard) {
    let seed = v["ops_seed"].as_u64().unwrap_or(1);
    let scale = v["scale"].as_u64().unwrap_or(1) as u32;
    let want = v["op"].as_str().unwrap_or("");
    for (name, f) in ops(seed, scale) {
        if name == want {
            let (a, b) = (f(), f());
            println!("{name}: first call {a:016x} second call {b:016x}");
            for n in HISTORY_MISMATCH.lock().map(|mut g| g.drain(..).collect::<Vec<String>>()).unwrap_or_default() {
                println!("{n}");
                sh.violation("history_dependence|replay|-", json!({"got": n}));
            }
            sh.eval(1);
            if a != b {
                sh.violation("repeat_in_process|replay|-", json!({"expected": format!("{a:016x}"), "got": format!("{b:016x}")}));
            }
        }
    }
}

/// `gvh digest-run --seed S --scale K [--repeat N]`: one line per call, for the cross-process checker
pub fn digest_run(args: &[String]) {
    let get = |n: &str, d: u64| args.iter().position(|a| a == n).and_then(|i| args.get(i + 1)).and_then(|s| s.parse().ok()).unwrap_or(d);
    let (seed, scale, repeat) = (get("--seed", 1), get("--scale", 1) as u32, get("--repeat", 1));
    crate::report::install_quiet_panic_hook();
    let order = get("--order", 0);
    println!("# threads={} seed={seed} scale={scale} order={order}", rayon::current_num_threads());
    let mut list = ops(seed, scale);
    if order > 0 {
        Rng::derive(seed, 0x0DE, order).shuffle(&mut list);
    }
    for (name, f) in list {
        for _ in 0..repeat {
            match call(|| f()) {
                Ok(d) => println!("{name} {d:016x}"),
                Err(_) => println!("{name} PANIC"),
            }
        }
    }
}
