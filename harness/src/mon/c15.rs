//! C15 — interpolation, location and densification agree along a line (Euclidean metric space).
//!
//! Part A (interp): Line / LineString on the dyadic lattice. "Exact-length" lines (every segment
//! axis-parallel or a scaled Pythagorean vector, decided from the data by a perfect-square test)
//! have integer segment lengths, so cumulative lengths and the reference point for dyadic ratios are
//! exactly representable; "general" lines have irrational lengths. Every form
//! (ratio/distance, from start/end, legacy `line_interpolate_point`, `InterpolatePoint`) is judged
//! against the reference arc-length point R(s) with a derived tolerance, which implies pairwise
//! coincidence within twice that tolerance; `line_locate_point` is judged as a round trip on simple lines.
//! Part B (densify): all seven Densifiable types + `points_along_line`.
use crate::ig::*;
use crate::report::*;
use crate::rng::{Fnv, Rng};
use geo::algorithm::line_measures::{Densify, Euclidean, InterpolateLine, InterpolatePoint};
use geo::{Coord, Line, LineInterpolatePoint, LineLocatePoint, LineString, MultiLineString, MultiPolygon, Point, Polygon, Rect, Triangle};
use serde_json::{json, Value};

const U: f64 = 1.1102230246251565e-16; // 2^-53

// ---- tolerance constants (derivations in REPORT.md and beside each use)
/// position: tol = KP·u·((n+4)·L + M)
const KP: f64 = 32.0;
/// densify, inserted point on its segment: tol = K_ON·u·(M + l)
const K_ON: f64 = 32.0;
/// densify, piece length: len <= max·(1+K_MAXREL·u) + K_MAXABS·u·(M + l)
const K_MAXREL: f64 = 8.0;
const K_MAXABS: f64 = 64.0;
/// densify, total length: |Δ| <= K_TOT·u·pieces·(M + L)
const K_TOT: f64 = 32.0;

fn next_up(x: f64) -> f64 {
    if x.is_nan() || x == f64::INFINITY {
        return x;
    }
    if x == 0.0 {
        return f64::from_bits(1);
    }
    let b = x.to_bits();
    if x > 0.0 {
        f64::from_bits(b + 1)
    } else {
        f64::from_bits(b - 1)
    }
}
fn next_down(x: f64) -> f64 {
    -next_up(-x)
}
fn unhex(v: &Value) -> f64 {
    f64::from_bits(u64::from_str_radix(v.as_str().unwrap_or("0"), 16).unwrap_or(0))
}
/// integer length of a lattice vector if it is exact (perfect square), else None
fn int_len(dx: i64, dy: i64) -> Option<i64> {
    let v = dx * dx + dy * dy;
    let s = (v as f64).sqrt().round() as i64;
    if s * s == v {
        Some(s)
    } else {
        None
    }
}
fn pts_json(v: &[IP]) -> Value {
    Value::Array(v.iter().map(|p| json!([p.0, p.1])).collect())
}
fn pts_from_json(v: &Value) -> Vec<IP> {
    v.as_array().map(|a| a.iter().map(|p| (p[0].as_i64().unwrap_or(0), p[1].as_i64().unwrap_or(0))).collect()).unwrap_or_default()
}
fn my_lat(r: &mut Rng) -> Lat {
    let offs: [i64; 12] = [0, 0, 0, 0, 0, 0, 1000, -1000, 100_000_000, -100_000_000, 1 << 40, -(1 << 40)];
    let ox = *r.pick(&offs);
    let oy = if r.chance(1, 2) { ox } else { *r.pick(&offs) };
    let sh = if r.chance(1, 2) { 0 } else { r.range(-30, 30) as i32 };
    Lat { ox, oy, sh, shear: 0 }
}

// =====================================================================================
// line generators
// =====================================================================================
const TRIPLES: [(i64, i64); 7] = [(3, 4), (5, 12), (8, 15), (7, 24), (20, 21), (9, 40), (12, 35)];

/// an exact-length vector; `mono` forces dx >= 0
fn exact_vec(r: &mut Rng, pyth: bool, mono: bool) -> IP {
    let (mut dx, mut dy);
    if pyth && r.chance(1, 2) {
        let t = *r.pick(&TRIPLES);
        let m = *r.pick(&[1i64, 1, 1, 2, 2, 3, 4]);
        (dx, dy) = (t.0 * m, t.1 * m);
        if r.chance(1, 2) {
            std::mem::swap(&mut dx, &mut dy);
        }
    } else {
        let k = if r.chance(1, 6) { r.range(1, 64) } else { r.range(1, 16) };
        if r.chance(1, 2) {
            (dx, dy) = (k, 0)
        } else {
            (dx, dy) = (0, k)
        }
    }
    if r.chance(1, 2) {
        dy = -dy;
    }
    if !mono && r.chance(1, 2) {
        dx = -dx;
    }
    (dx, dy)
}
fn general_vec(r: &mut Rng, mono: bool) -> IP {
    let g = if r.chance(1, 4) { 100 } else { 9 };
    loop {
        let dx = if mono { r.range(0, g) } else { r.range(-g, g) };
        let dy = r.range(-g, g);
        if (dx, dy) != (0, 0) {
            return (dx, dy);
        }
    }
}

#[derive(Clone, Copy, PartialEq, Debug)]
enum Shape {
    Axis,
    Pyth,
    Pow2,
    General,
}

/// open polyline with nseg non-degenerate segments
fn gen_open(r: &mut Rng, shape: Shape, nseg: usize, mono: bool) -> Vec<IP> {
    let mut p = (r.range(-8, 8), r.range(-8, 8));
    let mut v = vec![p];
    let mut vs = 0i64; // sign of the current vertical run (monotone walks never fold back)
    let mut total = 0i64;
    for _ in 0..nseg {
        let mut d = match shape {
            Shape::Axis => exact_vec(r, false, mono),
            Shape::Pyth | Shape::Pow2 => exact_vec(r, true, mono),
            Shape::General => general_vec(r, mono),
        };
        if mono {
            if d.0 == 0 {
                if vs != 0 && d.1.signum() != vs {
                    d.1 = -d.1;
                }
                vs = d.1.signum();
            } else {
                vs = 0;
            }
        }
        p = (p.0 + d.0, p.1 + d.1);
        v.push(p);
        if let Some(l) = int_len(d.0, d.1) {
            total += l;
        }
    }
    if shape == Shape::Pow2 {
        // make the total length a power of two so that every vertex ratio is an exact dyadic
        let mut pw = 1i64;
        while pw <= total {
            pw *= 2;
        }
        p = (p.0 + (pw - total), p.1);
        v.push(p);
    }
    v
}
/// closed ring (explicitly closed). exact => rectangle, right triangle (Pythagorean) or L-shape
fn gen_closed(r: &mut Rng, exact: bool) -> Vec<IP> {
    let o = (r.range(-8, 8), r.range(-8, 8));
    let mut v: Vec<IP> = if exact {
        match r.below(3) {
            0 => {
                let (w, h) = (r.range(1, 16), r.range(1, 16));
                vec![(0, 0), (w, 0), (w, h), (0, h)]
            }
            1 => {
                let t = *r.pick(&TRIPLES);
                let m = *r.pick(&[1i64, 1, 2, 4]);
                vec![(0, 0), (t.0 * m, 0), (t.0 * m, t.1 * m)]
            }
            _ => {
                let (w, h, a, b) = (r.range(2, 12), r.range(2, 12), r.range(1, 11), r.range(1, 11));
                let (a, b) = (a.min(w - 1), b.min(h - 1));
                vec![(0, 0), (w, 0), (w, b), (a, b), (a, h), (0, h)]
            }
        }
    } else {
        match crate::gen::simple_ring_in(r, 0, 12, 0, 12, 7) {
            Some(mut ring) if r.chance(3, 4) => {
                ring.pop();
                ring
            }
            _ => (0..r.range(3, 6)).map(|_| (r.range(0, 9), r.range(0, 9))).collect(),
        }
    };
    if exact {
        // random symmetry of the square lattice keeps lengths exact
        let (sx, sy, sw) = (r.chance(1, 2), r.chance(1, 2), r.chance(1, 2));
        for p in v.iter_mut() {
            if sx {
                p.0 = -p.0
            }
            if sy {
                p.1 = -p.1
            }
            if sw {
                *p = (p.1, p.0)
            }
        }
    }
    let n = v.len();
    v.rotate_left(r.below(n as u64) as usize);
    if r.chance(1, 2) {
        v.reverse();
    }
    let f = v[0];
    v.push(f);
    v.iter().map(|p| (p.0 + o.0, p.1 + o.1)).collect()
}
/// insert repeated vertices (zero-length segments): at the start, at the end, inside
fn add_dups(r: &mut Rng, v: &mut Vec<IP>) -> bool {
    let mut any = false;
    if r.chance(1, 4) {
        let f = v[0];
        for _ in 0..r.range(1, 2) {
            v.insert(0, f);
        }
        any = true;
    }
    if r.chance(1, 4) {
        let l = *v.last().unwrap();
        for _ in 0..r.range(1, 2) {
            v.push(l);
        }
        any = true;
    }
    if r.chance(1, 3) {
        for _ in 0..r.range(1, 2) {
            let i = r.below(v.len() as u64) as usize;
            let p = v[i];
            v.insert(i, p);
        }
        any = true;
    }
    any
}
fn gen_linestring(r: &mut Rng) -> Vec<IP> {
    let shape = *r.pick(&[Shape::Axis, Shape::Pyth, Shape::Pyth, Shape::Pow2, Shape::Pow2, Shape::General, Shape::General]);
    let mut v = if r.chance(1, 6) {
        gen_closed(r, shape != Shape::General)
    } else {
        // (one open line in 500: a track of realistic length - a segment count just beyond a power of two, or 130-700)
        let nseg = match r.below(500) {
            499 => crate::gen::long_count(r),
            k if k % 10 <= 1 => 1,
            k if k % 10 == 9 => r.range(9, 40) as usize,
            _ => r.range(2, 8) as usize,
        };
        let mono = r.chance(2, 3);
        gen_open(r, shape, nseg, mono)
    };
    if r.chance(2, 5) {
        add_dups(r, &mut v);
    }
    if r.chance(1, 60) {
        // all segments zero-length
        let p = v[0];
        let n = r.range(2, 4) as usize;
        v = vec![p; n];
    }
    v
}

// =====================================================================================
// Part A: interpolation / location
// =====================================================================================
enum L {
    Line(Line<f64>),
    Ls(LineString<f64>),
}
impl L {
    fn rs(&self, r: f64) -> Option<Point<f64>> {
        match self {
            L::Line(l) => Some(Euclidean.point_at_ratio_from_start(l, r)),
            L::Ls(l) => Euclidean.point_at_ratio_from_start(l, r),
        }
    }
    fn re(&self, r: f64) -> Option<Point<f64>> {
        match self {
            L::Line(l) => Some(Euclidean.point_at_ratio_from_end(l, r)),
            L::Ls(l) => Euclidean.point_at_ratio_from_end(l, r),
        }
    }
    fn ds(&self, d: f64) -> Option<Point<f64>> {
        match self {
            L::Line(l) => Some(Euclidean.point_at_distance_from_start(l, d)),
            L::Ls(l) => Euclidean.point_at_distance_from_start(l, d),
        }
    }
    fn de(&self, d: f64) -> Option<Point<f64>> {
        match self {
            L::Line(l) => Some(Euclidean.point_at_distance_from_end(l, d)),
            L::Ls(l) => Euclidean.point_at_distance_from_end(l, d),
        }
    }
    fn legacy(&self, r: f64) -> Option<Point<f64>> {
        match self {
            L::Line(l) => l.line_interpolate_point(r),
            L::Ls(l) => l.line_interpolate_point(r),
        }
    }
    fn locate(&self, p: &Point<f64>) -> Option<f64> {
        match self {
            L::Line(l) => l.line_locate_point(p),
            L::Ls(l) => l.line_locate_point(p),
        }
    }
}

struct LineCtx {
    pts: Vec<IP>,
    lat: Lat,
    as_line: bool,
    geo: L,
    n: usize,
    /// lattice units
    len: Vec<f64>,
    cum: Vec<f64>,
    total: f64,
    exact: bool,
    mag: f64,
    tol_pos: f64,
    scale: f64,
    inv_scale: f64,
    closed: bool,
    locate_ok: bool,
    tol_loc: f64,
    zero_first: bool,
    site: &'static str,
}

fn dedup(v: &[IP]) -> Vec<IP> {
    let mut o: Vec<IP> = vec![];
    for &p in v {
        if o.last() != Some(&p) {
            o.push(p);
        }
    }
    o
}

impl LineCtx {
    fn new(pts: Vec<IP>, lat: Lat, as_line: bool) -> LineCtx {
        let n = pts.len() - 1;
        let mut len = vec![];
        let mut cum = vec![0.0];
        let mut exact = true;
        for w in pts.windows(2) {
            let (dx, dy) = (w[1].0 - w[0].0, w[1].1 - w[0].1);
            let l = match int_len(dx, dy) {
                Some(l) => l as f64,
                None => {
                    exact = false;
                    ((dx * dx + dy * dy) as f64).sqrt()
                }
            };
            len.push(l);
            cum.push(cum.last().unwrap() + l);
        }
        let total = *cum.last().unwrap();
        let mag = pts.iter().map(|p| (lat.ox + p.0).abs()).max().unwrap() as f64 + pts.iter().map(|p| (lat.oy + p.1).abs()).max().unwrap() as f64;
        // Position tolerance (lattice units). geo: L = sum of n hypot's (each <= 1 ulp, n additions) -> rel. error
        // <= (n+2)u; r·L one rounding; the walk subtracts up to n segment lengths (<= u·L each); the final
        // `start + diff·d/total` has 3 roundings relative to the offset (<= l <= L), hypot 1 ulp, and the addition
        // rounds at the magnitude of the coordinate (<= u·M per coordinate). The arc-length map is 1-Lipschitz,
        // so an error in s moves the point by at most that much: |err| <= u·((2n+8)·L + 2M); the oracle itself
        // adds <= (n+3)·u·L. tol = 32·u·((n+4)·L + M) is >= 8x this bound; calibration: see REPORT.md.
        let tol_pos = KP * U * ((n as f64 + 4.0) * total + mag);
        let dd = dedup(&pts);
        let closed = dd.len() > 2 && dd[0] == dd[dd.len() - 1];
        let simple = dd.len() >= 2 && simple_linestring(&dd);
        // conditioning of the inverse map: smallest sine of the turn between consecutive segments
        let mut cond = 1.0f64;
        if simple {
            let m = dd.len() - 1;
            let pairs = if closed { m } else { m - 1 };
            for i in 0..pairs {
                let (a0, a1) = (dd[i], dd[i + 1]);
                let (b0, b1) = (dd[(i + 1) % m], dd[(i + 1) % m + 1]);
                let (ax, ay, bx, by) = ((a1.0 - a0.0) as f64, (a1.1 - a0.1) as f64, (b1.0 - b0.0) as f64, (b1.1 - b0.1) as f64);
                let cr = (ax * by - ay * bx).abs();
                if cr > 0.0 {
                    cond = cond.max(ax.hypot(ay) * bx.hypot(by) / cr);
                }
            }
        }
        // Round trip: the located fraction is (arc length of the nearest point)/L. The point handed to
        // line_locate_point is within tol_pos of the line point at arc length s; near a vertex with turn angle θ
        // the nearest point may lie on the neighbouring segment, at arc distance <= 2·e/sin θ from s; the
        // projection itself (2 dot products, a division, cum sums) contributes <= (n+8)·u.
        let tol_loc = if total > 0.0 { 4.0 * tol_pos * cond / total + 8.0 * (n as f64 + 4.0) * U } else { f64::INFINITY };
        let locate_ok = simple && total > 0.0 && tol_loc < 1.0 / 1024.0;
        let scale = lat.scale();
        let geo = if as_line { L::Line(Line::new(lat.c(pts[0]), lat.c(pts[1]))) } else { L::Ls(LineString::new(pts.iter().map(|&p| lat.c(p)).collect())) };
        LineCtx { zero_first: len[0] == 0.0, n, len, cum, total, exact, mag, tol_pos, scale, inv_scale: 1.0 / scale, closed, locate_ok, tol_loc, site: if as_line { "Line" } else { "LineString" }, pts, lat, as_line, geo }
    }
    /// reference point at arc length s (lattice units, measured from the start, clamped):
    /// (index of base vertex, offset from it in lattice units)
    fn reference(&self, s: f64) -> (usize, f64, f64) {
        if !(s > 0.0) {
            return (0, 0.0, 0.0);
        }
        if s >= self.total {
            return (self.n, 0.0, 0.0);
        }
        for i in 0..self.n {
            if self.len[i] > 0.0 && s <= self.cum[i + 1] {
                let t = (s - self.cum[i]) / self.len[i];
                let (dx, dy) = ((self.pts[i + 1].0 - self.pts[i].0) as f64, (self.pts[i + 1].1 - self.pts[i].1) as f64);
                return (i, dx * t, dy * t);
            }
        }
        (self.n, 0.0, 0.0)
    }
    fn ref_real(&self, rf: (usize, f64, f64)) -> (f64, f64) {
        let p = self.pts[rf.0];
        (((self.lat.ox + p.0) as f64 + rf.1) * self.scale, ((self.lat.oy + p.1) as f64 + rf.2) * self.scale)
    }
    /// distance (lattice units) between a returned point and the reference
    fn err(&self, rf: (usize, f64, f64), g: Point<f64>) -> f64 {
        let p = self.pts[rf.0];
        let ex = (g.x() * self.inv_scale - (self.lat.ox + p.0) as f64) - rf.1;
        let ey = (g.y() * self.inv_scale - (self.lat.oy + p.1) as f64) - rf.2;
        ex.hypot(ey)
    }
    fn detail(&self, check: &str, kind: &str, v: f64, expected: String, got: String, extra: Value) -> Value {
        json!({"property": "C15", "check": check, "part": "interp", "as_line": self.as_line, "pts": pts_json(&self.pts), "lat": self.lat.json(),
               "probe": {"k": kind, "v": hexf(v), "value": format!("{:e}", v)}, "expected": expected, "got": got, "extra": extra,
               "exact_length_line": self.exact, "length": self.total * self.scale})
    }
}

fn clamp01(r: f64) -> f64 {
    if r <= 0.0 {
        0.0
    } else if r >= 1.0 {
        1.0
    } else {
        r
    }
}

/// judge one returned point against the reference at arc length `s` (lattice units from the start)
fn judge_pos(sh: &mut Shard, lc: &LineCtx, check: &str, kind: &str, v: f64, got: Result<Option<Point<f64>>, String>, s: f64, extra_tol: f64, verbose: bool) -> Option<Point<f64>> {
    sh.eval(1);
    let rf = lc.reference(s);
    let exp = lc.ref_real(rf);
    let tol = lc.tol_pos + extra_tol;
    if verbose {
        println!("  {check} [{kind}={v:e}]: expected ({:e}, {:e}) got {:?} (tol {:e})", exp.0, exp.1, got, tol * lc.scale);
    }
    match got {
        Err(p) => {
            sh.violation(&format!("{check}.panic|{}|-", lc.site), lc.detail(&format!("{check}.panic"), kind, v, format!("{:?}", exp), p, json!({"at": last_panic_loc()})));
            None
        }
        Ok(None) => {
            // narrow, input-defined class for the known defect of the legacy LineString implementation
            let site = if check == "legacy.coincides" && !lc.as_line && lc.zero_first && (s * lc.scale == 0.0) { "LineString[zero_length_first_segment,fraction*length==0]".to_string() } else { lc.site.to_string() };
            sh.violation(&format!("{check}|{site}|-"), lc.detail(check, kind, v, format!("Some({:?})", exp), "None".into(), json!({})));
            None
        }
        Ok(Some(p)) => {
            let e = lc.err(rf, p);
            if tol > 0.0 && e.is_finite() {
                sh.maximum(&format!("pos_err_over_tol.{}", if lc.exact { "exact" } else { "general" }), e / tol);
            }
            if !(e <= tol) {
                // narrow, input-defined class: ratio ±inf on a line string of total length 0 (inf·0 = NaN)
                let site = if !lc.as_line && lc.total == 0.0 && kind == "R" && v.is_infinite() { "LineString[zero_total_length,infinite_ratio]".to_string() } else { lc.site.to_string() };
                sh.violation(&format!("{check}|{site}|-"), lc.detail(check, kind, v, format!("{:?}", exp), format!("({:e}, {:e})", p.x(), p.y()), json!({"err": e * lc.scale, "tol": tol * lc.scale})));
            }
            Some(p)
        }
    }
}

fn probe_r(sh: &mut Shard, lc: &LineCtx, r: f64, verbose: bool) {
    if r.is_nan() {
        // observe only: the statement is about ratios, NaN is none
        let _ = call(|| (lc.geo.rs(r), lc.geo.re(r), lc.geo.legacy(r)));
        sh.class("observe_only:nan_ratio");
        return;
    }
    let rc = clamp01(r);
    let s = rc * lc.total;
    // clause 1: the ratio form lies at arc length clamp(r)·L
    let p1 = judge_pos(sh, lc, "ratio_from_start.arc_length", "R", r, call(|| lc.geo.rs(r)), s, 0.0, verbose);
    // clause 2: from_end(1-r); fl(1-r) differs from 1-r by <= 2u wherever it matters (|r| <= 2), see REPORT
    let r2 = 1.0 - r;
    judge_pos(sh, lc, "ratio_from_end.coincides", "R", r, call(|| lc.geo.re(r2)), s, 2.0 * U * lc.total, verbose);
    // clause 3/4: distance forms with d = r·L (|fl(r·L) - r·L| <= u·L)
    let l_real = lc.total * lc.scale;
    if r.is_finite() {
        let d = r * l_real;
        judge_pos(sh, lc, "distance_from_start.coincides", "R", r, call(|| lc.geo.ds(d)), s, U * lc.total, verbose);
        let d2 = r2 * l_real;
        judge_pos(sh, lc, "distance_from_end.coincides", "R", r, call(|| lc.geo.de(d2)), s, 3.0 * U * lc.total, verbose);
    }
    // clause 5: legacy form
    judge_pos(sh, lc, "legacy.coincides", "R", r, call(|| lc.geo.legacy(r)), s, 0.0, verbose);
    // InterpolatePoint primitives on single segments, inside their documented range
    if lc.n == 1 && lc.total > 0.0 && (0.0..=1.0).contains(&r) {
        let (a, b) = (Point(lc.lat.c(lc.pts[0])), Point(lc.lat.c(lc.pts[1])));
        judge_pos(sh, lc, "point_at_ratio_between.arc_length", "R", r, call(|| Some(Euclidean.point_at_ratio_between(a, b, r))), s, 0.0, verbose);
        let d = r * l_real;
        judge_pos(sh, lc, "point_at_distance_between.arc_length", "R", r, call(|| Some(Euclidean.point_at_distance_between(a, b, d))), s, U * lc.total, verbose);
        sh.class("form:InterpolatePoint");
    }
    // clause 6: round trip on simple lines
    if let Some(p) = p1 {
        if lc.locate_ok && p.x().is_finite() && p.y().is_finite() {
            sh.eval(1);
            let got = call(|| lc.geo.locate(&p));
            if verbose {
                println!("  locate.round_trip [R={r:e}]: expected {rc:e} got {:?} (tol {:e})", got, lc.tol_loc);
            }
            match got {
                Err(m) => sh.violation(&format!("locate.round_trip.panic|{}|-", lc.site), lc.detail("locate.round_trip.panic", "R", r, format!("{rc:e}"), m, json!({"at": last_panic_loc()}))),
                Ok(None) => sh.violation(&format!("locate.round_trip|{}|-", lc.site), lc.detail("locate.round_trip", "R", r, format!("Some({rc:e})"), "None".into(), json!({}))),
                Ok(Some(f)) => {
                    let mut e = (f - rc).abs();
                    if lc.closed {
                        e = e.min((1.0 - e).abs());
                    }
                    if e.is_finite() {
                        sh.maximum("locate_err_over_tol", e / lc.tol_loc);
                    }
                    if !(e <= lc.tol_loc) {
                        sh.violation(&format!("locate.round_trip|{}|-", lc.site), lc.detail("locate.round_trip", "R", r, format!("{rc:e}"), format!("{f:e}"), json!({"err": e, "tol": lc.tol_loc, "point": [p.x(), p.y()]})));
                    }
                }
            }
            sh.class(if lc.closed { "locate:closed_ring" } else { "locate:open_simple" });
        } else {
            sh.class("locate:not_judged(non_simple|zero_length|ill_conditioned)");
        }
    }
}

fn probe_d(sh: &mut Shard, lc: &LineCtx, d: f64, verbose: bool) {
    if d.is_nan() {
        let _ = call(|| (lc.geo.ds(d), lc.geo.de(d)));
        sh.class("observe_only:nan_distance");
        return;
    }
    let dl = d * lc.inv_scale; // exact (power of two)
    let sc = if dl <= 0.0 { 0.0 } else if dl >= lc.total { lc.total } else { dl };
    judge_pos(sh, lc, "distance_from_start.arc_length", "D", d, call(|| lc.geo.ds(d)), sc, 0.0, verbose);
    judge_pos(sh, lc, "distance_from_end.arc_length", "D", d, call(|| lc.geo.de(d)), lc.total - sc, U * lc.total, verbose);
}

/// line strings with fewer than two coordinates have no segment: outside the quantifier ("lines and line
/// strings"), exercised without verdict (the new API documents Some(point)/None, the legacy one returns None)
fn observe_degenerate(sh: &mut Shard, r: &mut Rng) {
    let lat = my_lat(r);
    let ls = LineString::new(if r.chance(1, 2) { vec![] } else { vec![lat.c((r.range(-8, 8), r.range(-8, 8)))] });
    let x = *r.pick(&[-1.0, 0.0, 0.5, 1.0, 2.0, f64::NAN]);
    let res = call(|| {
        let q = Point::new(0.0, 0.0);
        (Euclidean.point_at_ratio_from_start(&ls, x), Euclidean.point_at_ratio_from_end(&ls, x), Euclidean.point_at_distance_from_start(&ls, x), Euclidean.point_at_distance_from_end(&ls, x), ls.line_interpolate_point(x), ls.line_locate_point(&q))
    });
    sh.class(if res.is_ok() { "observe_only:linestring_with_fewer_than_2_points" } else { "observe_only:linestring_with_fewer_than_2_points:panicked" });
}

fn interp_case(sh: &mut Shard, r: &mut Rng) {
    if r.chance(1, 100) {
        observe_degenerate(sh, r);
        return;
    }
    let as_line = r.chance(1, 5);
    let pts = if as_line {
        let a = (r.range(-8, 8), r.range(-8, 8));
        let d = match r.below(8) {
            0 => (0, 0),
            1..=4 => exact_vec(r, true, false),
            _ => general_vec(r, false),
        };
        vec![a, (a.0 + d.0, a.1 + d.1)]
    } else {
        gen_linestring(r)
    };
    let lat = my_lat(r);
    let lc = LineCtx::new(pts, lat, as_line);
    // ---- strata
    sh.class(&format!("interp:type:{}", lc.site));
    sh.class(if lc.exact { "interp:lengths:exact" } else { "interp:lengths:irrational" });
    if lc.total == 0.0 {
        sh.class("interp:zero_total_length");
    }
    if lc.n == 1 {
        sh.class("interp:single_segment");
    }
    if lc.n >= 9 {
        sh.class("interp:long(9..40 segments)");
    }
    if lc.closed {
        sh.class("interp:closed_ring");
    }
    if lc.zero_first {
        sh.class("interp:zero_length_first_segment");
    }
    if lc.len[lc.n - 1] == 0.0 {
        sh.class("interp:zero_length_last_segment");
    }
    if lc.len.iter().skip(1).take(lc.n.saturating_sub(2)).any(|&l| l == 0.0) {
        sh.class("interp:zero_length_inner_segment");
    }
    if lc.exact && lc.total > 0.0 && (lc.total as u64).is_power_of_two() {
        sh.class("interp:total_power_of_two(vertex ratios exact)");
    }
    if lat.ox != 0 || lat.oy != 0 {
        sh.class("interp:lattice_offset");
    }
    // ---- ratio probes
    let mut rs: Vec<f64> = vec![];
    let specials = [-1.0, -0.0, 0.0, 1.0, 2.0, 0.5, 0.25, 0.75, 0.125, 1e-300, -1e-300, 5e-324, -5e-324, next_down(1.0), next_up(1.0), 1e300, -1e300, f64::INFINITY, f64::NEG_INFINITY, f64::NAN];
    rs.extend([0.0, 1.0]);
    for _ in 0..4 {
        rs.push(*r.pick(&specials));
    }
    for _ in 0..3 {
        rs.push(r.f01());
    }
    let j = r.range(1, 10);
    rs.push(r.range(0, 1 << j) as f64 / (1i64 << j) as f64);
    rs.push(r.range(-(1 << j), 2 << j) as f64 / (1i64 << j) as f64);
    let nv = if lc.n <= 4 { lc.n + 1 } else { 4 };
    for q in 0..nv {
        let i = if lc.n <= 4 { q } else { r.below(lc.n as u64 + 1) as usize };
        if lc.total > 0.0 {
            let vr = lc.cum[i] / lc.total;
            rs.extend([vr, next_up(vr), next_down(vr)]);
            sh.class_n("probe:vertex_ratio(+-1ulp)", 3);
            if i < lc.n && r.chance(1, 2) {
                rs.push((lc.cum[i] + lc.cum[i + 1]) / 2.0 / lc.total);
            }
        }
    }
    // ---- distance probes (real units)
    let lr = lc.total * lc.scale;
    let mut ds: Vec<f64> = vec![0.0, lr];
    let dspecial = [-1.0, -0.0, 5e-324, -5e-324, next_up(lr), next_down(lr), 2.0 * lr, lr + 1.0, 1e300, -1e300, f64::INFINITY, f64::NEG_INFINITY, f64::NAN];
    for _ in 0..3 {
        ds.push(*r.pick(&dspecial));
    }
    ds.push(r.f01() * lr);
    ds.push(r.f01() * lr);
    let nvd = if lc.n <= 3 { lc.n + 1 } else { 3 };
    for q in 0..nvd {
        let i = if lc.n <= 3 { q } else { r.below(lc.n as u64 + 1) as usize };
        let c = lc.cum[i] * lc.scale;
        ds.extend([c, next_up(c), next_down(c)]);
        sh.class_n("probe:vertex_distance(+-1ulp)", 3);
    }
    let mut h = Fnv::new();
    h.str(lc.site);
    for p in &lc.pts {
        h.i64(p.0);
        h.i64(p.1);
    }
    h.i64(lat.ox);
    h.i64(lat.oy);
    h.i64(lat.sh as i64);
    let mut interior = false;
    for &x in &rs {
        h.f64(x);
        if x < 0.0 {
            sh.class("probe:ratio<0")
        } else if x > 1.0 {
            sh.class("probe:ratio>1")
        } else if x > 0.0 && x < 1.0 {
            interior = true;
            sh.class("probe:ratio_interior")
        } else if !x.is_nan() {
            sh.class("probe:ratio_0_or_1")
        }
        probe_r(sh, &lc, x, false);
    }
    for &x in &ds {
        h.f64(x);
        if x < 0.0 {
            sh.class("probe:distance<0")
        } else if x > lr {
            sh.class("probe:distance>total")
        }
        probe_d(sh, &lc, x, false);
    }
    if lc.total > 0.0 && interior {
        sh.nontrivial(h.0);
    }
    sh.sample(|| json!({"part": "interp", "type": lc.site, "pts": pts_json(&lc.pts), "lat": lc.lat.json(), "length": lr, "exact_lengths": lc.exact, "ratios": rs.iter().map(|x| format!("{x:e}")).collect::<Vec<_>>()}));
}


// =====================================================================================
// Part B: densify
// =====================================================================================
/// the linear components of a geometry, in geo's order, as lattice vertices; `shape` = rings per member
fn tri_raw(a: IP, b: IP, c: IP) -> bool {
    (a.0 ^ b.1 ^ c.0 ^ c.1) & 1 == 0
}

fn components(g: &IG) -> Option<(Vec<Vec<IP>>, Vec<usize>)> {
    Some(match g {
        IG::Line(a, b) => (vec![vec![*a, *b]], vec![1]),
        IG::LineString(v) => (vec![v.clone()], vec![1]),
        IG::MultiLineString(v) => (v.clone(), vec![1; v.len()]),
        IG::Polygon(r) => (r.clone(), vec![r.len()]),
        IG::MultiPolygon(ps) => (ps.iter().flatten().cloned().collect(), ps.iter().map(|p| p.len()).collect()),
        // documented order of Rect::to_polygon: (max.x,min.y) (max.x,max.y) (min.x,max.y) (min.x,min.y), closed
        IG::Rect(a, b) => {
            let (x0, x1, y0, y1) = (a.0.min(b.0), a.0.max(b.0), a.1.min(b.1), a.1.max(b.1));
            (vec![vec![(x1, y0), (x1, y1), (x0, y1), (x0, y0), (x1, y0)]], vec![1])
        }
        // documented: `Triangle::new` stores clockwise input reversed (v3, v2, v1); to_polygon = (0, 1, 2, 0)
        // half of the triangles are built with the tuple constructor (vertices as written, clockwise included), half with
        // Triangle::new (which re-orders a clockwise triple)
        IG::Triangle(a, b, c) => (vec![if !tri_raw(*a, *b, *c) && orient_i(*a, *b, *c) < 0 { vec![*c, *b, *a, *c] } else { vec![*a, *b, *c, *a] }], vec![1]),
        _ => return None,
    })
}
fn ls_of(lat: &Lat, v: &[IP]) -> LineString<f64> {
    LineString::new(v.iter().map(|&p| lat.c(p)).collect())
}
fn poly_of(lat: &Lat, r: &[Vec<IP>]) -> Polygon<f64> {
    Polygon::new(ls_of(lat, &r[0]), r[1..].iter().map(|x| ls_of(lat, x)).collect())
}
fn poly_out(p: &Polygon<f64>) -> Vec<Vec<Coord<f64>>> {
    std::iter::once(p.exterior().0.clone()).chain(p.interiors().iter().map(|i| i.0.clone())).collect()
}
/// run geo's densify; returns (components, shape)
fn run_densify(g: &IG, lat: &Lat, maxd: f64) -> Result<(Vec<Vec<Coord<f64>>>, Vec<usize>), String> {
    call(|| match g {
        IG::Line(a, b) => (vec![Euclidean.densify(&Line::new(lat.c(*a), lat.c(*b)), maxd).0], vec![1]),
        IG::LineString(v) => (vec![Euclidean.densify(&ls_of(lat, v), maxd).0], vec![1]),
        IG::MultiLineString(v) => {
            let o = Euclidean.densify(&MultiLineString::new(v.iter().map(|x| ls_of(lat, x)).collect()), maxd);
            (o.0.iter().map(|l| l.0.clone()).collect(), vec![1; o.0.len()])
        }
        IG::Polygon(r) => {
            let o = Euclidean.densify(&poly_of(lat, r), maxd);
            let c = poly_out(&o);
            let n = c.len();
            (c, vec![n])
        }
        IG::MultiPolygon(ps) => {
            let o = Euclidean.densify(&MultiPolygon::new(ps.iter().map(|p| poly_of(lat, p)).collect()), maxd);
            (o.0.iter().flat_map(poly_out).collect(), o.0.iter().map(|p| 1 + p.interiors().len()).collect())
        }
        IG::Rect(a, b) => {
            let o = Euclidean.densify(&Rect::new(lat.c(*a), lat.c(*b)), maxd);
            let c = poly_out(&o);
            let n = c.len();
            (c, vec![n])
        }
        IG::Triangle(a, b, c) => {
            let t = if tri_raw(*a, *b, *c) { Triangle(lat.c(*a), lat.c(*b), lat.c(*c)) } else { Triangle::new(lat.c(*a), lat.c(*b), lat.c(*c)) };
            let o = Euclidean.densify(&t, maxd);
            let c = poly_out(&o);
            let n = c.len();
            (c, vec![n])
        }
        _ => unreachable!(),
    })
}

fn same_bits(a: Coord<f64>, b: Coord<f64>) -> bool {
    a.x.to_bits() == b.x.to_bits() && a.y.to_bits() == b.y.to_bits()
}

/// accepted numbers of pieces for a segment of lattice length `l` (exact integer if `exact`) and max `m`
/// (lattice units): the documented rule is ceil(l/m); (lo, hi, exact_multiple)
fn pieces_expected(l: f64, exact: bool, m: f64) -> (f64, f64, bool) {
    if l == 0.0 || m == f64::INFINITY {
        return (0.0, 0.0, false);
    }
    let q = l / m;
    if exact {
        let k = q.round();
        // exact sign of k·m − l (one rounding of the exact value; zero iff equal)
        let resid = k.mul_add(m, -l);
        if resid == 0.0 {
            return (k, k, true);
        }
        if resid > 0.0 {
            // q < k (and q > k − 1): fl(q) is k or just below it, ceil gives k either way
            return (k, k, false);
        }
        // q > k
        if -resid <= 4.0 * U * l {
            // q exceeds the integer k by a few ulps: fl(l/m) may round to k (pieces of length max·(1+O(u)))
            return (k, k + 1.0, false);
        }
        return (k + 1.0, k + 1.0, false);
    }
    // irrational length: geo's hypot (<= 1 ulp), our sqrt (<= 1/2 ulp) and the division leave q uncertain by 8u
    ((q * (1.0 - 8.0 * U)).ceil(), (q * (1.0 + 8.0 * U)).ceil(), false)
}

struct DCtx<'a> {
    g: &'a IG,
    lat: &'a Lat,
    maxd: f64,
    site: String,
    verbose: bool,
}
impl<'a> DCtx<'a> {
    fn detail(&self, check: &str, expected: String, got: String, extra: Value) -> Value {
        json!({"property": "C15", "check": check, "part": "densify", "g": self.g.json(), "lat": self.lat.json(), "max": hexf(self.maxd), "max_value": format!("{:e}", self.maxd),
               "expected": expected, "got": got, "extra": extra})
    }
    fn viol(&self, sh: &mut Shard, check: &str, expected: String, got: String, extra: Value) {
        if self.verbose {
            println!("  VIOLATION {check}: expected {expected} got {got} {extra}");
        }
        sh.violation(&format!("{check}|{}|-", self.site), self.detail(check, expected, got, extra));
    }
}

/// judge one densified linear component; returns the number of inserted points
fn judge_component(sh: &mut Shard, dc: &DCtx, ci: usize, orig: &[IP], out: &[Coord<f64>]) -> usize {
    let lat = dc.lat;
    let scale = lat.scale();
    let v: Vec<Coord<f64>> = orig.iter().map(|&p| lat.c(p)).collect();
    // ---- clause: every original vertex kept, bit-identical, in order (greedy earliest decomposition)
    sh.eval(1);
    if v.is_empty() || out.is_empty() {
        if v.len() != out.len() {
            dc.viol(sh, "densify.vertices_kept", format!("{} coordinates", v.len()), format!("{} coordinates", out.len()), json!({"component": ci}));
        }
        return 0;
    }
    if !same_bits(out[0], v[0]) {
        dc.viol(sh, "densify.vertices_kept", format!("first coordinate {:?}", v[0]), format!("{:?}", out[0]), json!({"component": ci}));
        return 0;
    }
    let mut cuts = vec![0usize]; // index in `out` of original vertex i
    let mut cur = 0usize;
    for i in 1..v.len() {
        let mut j = cur + 1;
        while j < out.len() && !same_bits(out[j], v[i]) {
            j += 1;
        }
        if j >= out.len() {
            dc.viol(sh, "densify.vertices_kept", format!("original vertex #{i} {:?} after output index {cur}", v[i]), "absent".into(), json!({"component": ci, "output_len": out.len()}));
            return 0;
        }
        cuts.push(j);
        cur = j;
    }
    if cur != out.len() - 1 {
        dc.viol(sh, "densify.vertices_kept", format!("output ends with the last original vertex {:?}", v[v.len() - 1]), format!("{} trailing coordinate(s), last {:?}", out.len() - 1 - cur, out[out.len() - 1]), json!({"component": ci}));
        return 0;
    }
    let mag = (orig.iter().map(|p| (lat.ox + p.0).abs()).max().unwrap() as f64 + orig.iter().map(|p| (lat.oy + p.1).abs()).max().unwrap() as f64) * scale;
    let max_lat = dc.maxd / scale;
    let mut total_orig = 0.0;
    let mut total_out = 0.0;
    let mut inserted_total = 0usize;
    for i in 0..v.len() - 1 {
        let (dx, dy) = (orig[i + 1].0 - orig[i].0, orig[i + 1].1 - orig[i].1);
        let (l_lat, exact) = match int_len(dx, dy) {
            Some(l) => (l as f64, true),
            None => (((dx * dx + dy * dy) as f64).sqrt(), false),
        };
        let l = l_lat * scale;
        total_orig += l;
        let ins = &out[cuts[i] + 1..cuts[i + 1]];
        inserted_total += ins.len();
        let (ax, ay) = (v[i + 1].x - v[i].x, v[i + 1].y - v[i].y); // exact: lattice differences
        // ---- clause: inserted points lie on the original segment.
        // p = start + diff·ratio: one product rounding (<= u·l) and one addition rounding at the coordinate's
        // magnitude (<= u·M per coordinate); our own evaluation (difference, two products) adds <= 4u·l.
        let tol_on = K_ON * U * (mag + l);
        for (j, p) in ins.iter().enumerate() {
            sh.eval(1);
            let (wx, wy) = (p.x - v[i].x, p.y - v[i].y);
            let (perp, along) = if l > 0.0 { ((ax * wy - ay * wx).abs() / l, (ax * wx + ay * wy) / l) } else { (wx.hypot(wy), 0.0) };
            let off = perp.max(-along).max(along - l);
            sh.maximum("densify.on_segment_err_over_tol", if tol_on > 0.0 { off.max(0.0) / tol_on } else { 0.0 });
            if !(off <= tol_on) {
                dc.viol(sh, "densify.on_segment", format!("a point of segment {:?}-{:?}", v[i], v[i + 1]), format!("{:?}", p), json!({"component": ci, "segment": i, "inserted_index": j, "perp": perp, "along": along, "length": l, "tol": tol_on}));
                break;
            }
        }
        // ---- clause: no piece longer than max. Exact pieces are l/ceil(l/max) <= max; each end point carries
        // the rounding above (<= 1.5u(M+l) each), hypot and the differences <= 3u relative.
        let tol_abs = K_MAXABS * U * (mag + l);
        for j in cuts[i]..cuts[i + 1] {
            sh.eval(1);
            let pl = (out[j + 1].x - out[j].x).hypot(out[j + 1].y - out[j].y);
            total_out += pl;
            let excess = pl - dc.maxd * (1.0 + K_MAXREL * U);
            if excess > 0.0 && tol_abs > 0.0 {
                sh.maximum("densify.max_excess_over_tol", excess / tol_abs);
            }
            if !(excess <= tol_abs) {
                dc.viol(sh, "densify.max_segment", format!("<= {:e}", dc.maxd), format!("{:e} between {:?} and {:?}", pl, out[j], out[j + 1]), json!({"component": ci, "segment": i, "piece": j - cuts[i], "pieces": cuts[i + 1] - cuts[i], "segment_length": l, "tol_abs": tol_abs}));
                break;
            }
        }
        // ---- clause: number of pieces follows the documented ceil rule
        let (lo, hi, exact_mult) = pieces_expected(l_lat, exact, max_lat);
        let pieces = (ins.len() + 1) as f64;
        let (lo1, hi1) = (lo.max(1.0), hi.max(1.0));
        if exact_mult {
            sh.class("densify:segment_exact_multiple_of_max");
            if lo == 1.0 {
                sh.class("densify:segment_length==max");
            }
        } else if lo != hi {
            sh.class("densify:segment_within_ulps_of_multiple");
        }
        if l == 0.0 {
            sh.class("densify:zero_length_segment");
        }
        // the decomposition is unambiguous only while consecutive inserted points are distinct doubles
        if l == 0.0 || l / hi1 > 64.0 * U * mag {
            sh.eval(1);
            if pieces < lo1 || pieces > hi1 {
                dc.viol(sh, "densify.count", if lo1 == hi1 { format!("{} inserted point(s) = ceil({:e}/{:e}) - 1", lo1 - 1.0, l, dc.maxd) } else { format!("{} or {} inserted points", lo1 - 1.0, hi1 - 1.0) }, format!("{} inserted point(s)", ins.len()),
                        json!({"component": ci, "segment": i, "segment_length": l, "exact_multiple": exact_mult, "ratio": l / dc.maxd}));
            }
        } else {
            sh.class("densify:count_not_judged(pieces below coordinate resolution)");
        }
    }
    // ---- clause: total length unchanged. An inserted point displaced by e changes the sum of its two pieces
    // by <= 2e (e <= 1.5u(M+l)); both sums carry <= pieces·u·L of summation/hypot error.
    sh.eval(1);
    let pieces = (out.len() - 1).max(1) as f64;
    let tol_tot = K_TOT * U * pieces * (mag + total_orig);
    let dt = (total_out - total_orig).abs();
    if tol_tot > 0.0 {
        sh.maximum("densify.total_err_over_tol", dt / tol_tot);
    }
    if !(dt <= tol_tot) {
        dc.viol(sh, "densify.total_length", format!("{:e}", total_orig), format!("{:e}", total_out), json!({"component": ci, "tol": tol_tot}));
    }
    inserted_total
}

fn densify_case(sh: &mut Shard, g: &IG, lat: &Lat, maxd: f64, verbose: bool) -> usize {
    let (comps, shape) = match components(g) {
        Some(x) => x,
        None => return 0,
    };
    let dc = DCtx { g, lat, maxd, site: g.kind().to_string(), verbose };
    let out = run_densify(g, lat, maxd);
    if verbose {
        println!("densify({:?}, {:e}) = {:?}", g.to_geo(lat), maxd, out);
    }
    let mut inserted = 0;
    match out {
        Err(p) => sh.violation(&format!("densify.panic|{}|-", dc.site), dc.detail("densify.panic", "a densified geometry".into(), p, json!({"at": last_panic_loc()}))),
        Ok((oc, oshape)) => {
            sh.eval(1);
            if oshape != shape || oc.len() != comps.len() {
                dc.viol(sh, "densify.structure", format!("members with ring counts {:?}", shape), format!("{:?}", oshape), json!({}));
            } else {
                for (ci, (o, c)) in comps.iter().zip(oc.iter()).enumerate() {
                    inserted += judge_component(sh, &dc, ci, o, c);
                }
            }
        }
    }
    // points_along_line is the same primitive with an iterator interface
    if let IG::Line(a, b) = g {
        let (pa, pb) = (Point(lat.c(*a)), Point(lat.c(*b)));
        for ends in [true, false] {
            let dc2 = DCtx { g, lat, maxd, site: format!("points_along_line[include_ends={ends}]"), verbose };
            match call(|| Euclidean.points_along_line(pa, pb, maxd, ends).map(|p| p.0).collect::<Vec<_>>()) {
                Err(p) => sh.violation(&format!("densify.panic|{}|-", dc2.site), dc2.detail("densify.panic", "points".into(), p, json!({"at": last_panic_loc()}))),
                Ok(mut v) => {
                    if !ends {
                        v.insert(0, pa.0);
                        v.push(pb.0);
                    }
                    judge_component(sh, &dc2, 0, &[*a, *b], &v);
                }
            }
        }
    }
    inserted
}

fn gen_ring_any(r: &mut Rng, exact: bool) -> Vec<IP> {
    let mut v = gen_closed(r, exact);
    if r.chance(1, 6) {
        add_dups(r, &mut v);
        // keep it explicitly closed (duplicates of the first/last vertex keep first == last)
    }
    v
}
fn gen_dgeom(r: &mut Rng) -> IG {
    let exact = r.chance(3, 5);
    let shape = if exact { *r.pick(&[Shape::Axis, Shape::Pyth, Shape::Pyth]) } else { Shape::General };
    let open = |r: &mut Rng| {
        let nseg = if r.chance(1, 4) { 1 } else { r.range(2, 7) as usize };
        let mono = r.chance(1, 2);
        let mut v = gen_open(r, shape, nseg, mono);
        if r.chance(1, 3) {
            add_dups(r, &mut v);
        }
        v
    };
    match r.below(100) {
        0..=11 => {
            let a = (r.range(-8, 8), r.range(-8, 8));
            let d = if r.chance(1, 12) { (0, 0) } else if exact { exact_vec(r, true, false) } else { general_vec(r, false) };
            IG::Line(a, (a.0 + d.0, a.1 + d.1))
        }
        12..=34 => IG::LineString(if r.chance(1, 5) { gen_ring_any(r, exact) } else { open(r) }),
        35..=37 => IG::LineString(if r.chance(1, 2) { vec![] } else { vec![(r.range(-8, 8), r.range(-8, 8))] }),
        38..=47 => {
            let n = r.range(1, 3);
            IG::MultiLineString((0..n).map(|_| if r.chance(1, 10) { vec![] } else { open(r) }).collect())
        }
        48..=65 => {
            let nh = *r.pick(&[0usize, 0, 1, 2]);
            IG::Polygon((0..1 + nh).map(|_| gen_ring_any(r, exact)).collect())
        }
        66..=73 => {
            let n = r.range(1, 3);
            IG::MultiPolygon((0..n).map(|_| (0..r.range(1, 2)).map(|_| gen_ring_any(r, exact)).collect()).collect())
        }
        74..=86 => {
            let a = (r.range(-8, 8), r.range(-8, 8));
            let (w, h) = if r.chance(1, 10) { (0, r.range(0, 9)) } else { (r.range(1, 24), r.range(1, 24)) };
            let b = (a.0 + w, a.1 + h);
            if r.chance(1, 2) {
                IG::Rect(a, b)
            } else {
                IG::Rect((b.0, a.1), (a.0, b.1))
            }
        }
        _ => {
            if exact {
                let t = *r.pick(&TRIPLES);
                let m = *r.pick(&[1i64, 1, 2, 4]);
                let mut v = vec![(0, 0), (t.0 * m, 0), (t.0 * m, t.1 * m)];
                let (sx, sw) = (r.chance(1, 2), r.chance(1, 2));
                for p in v.iter_mut() {
                    if sx {
                        p.0 = -p.0
                    }
                    if sw {
                        *p = (p.1, p.0)
                    }
                }
                v.rotate_left(r.below(3) as usize);
                IG::Triangle(v[0], v[1], v[2])
            } else {
                let p = |r: &mut Rng| (r.range(-9, 9), r.range(-9, 9));
                let a = p(r);
                IG::Triangle(a, if r.chance(1, 12) { a } else { p(r) }, p(r))
            }
        }
    }
}

/// choose a maximum segment length (real units) and name its stratum
fn gen_max(r: &mut Rng, comps: &[Vec<IP>], scale: f64) -> (f64, &'static str) {
    let mut lens: Vec<(f64, bool)> = vec![];
    for c in comps {
        for w in c.windows(2) {
            let (dx, dy) = (w[1].0 - w[0].0, w[1].1 - w[0].1);
            match int_len(dx, dy) {
                Some(0) => {}
                Some(l) => lens.push((l as f64, true)),
                None => lens.push((((dx * dx + dy * dy) as f64).sqrt(), false)),
            }
        }
    }
    if lens.is_empty() {
        return ((1.0 + r.f01()) * scale, "max:geometry_without_length");
    }
    let lmin = lens.iter().map(|x| x.0).fold(f64::INFINITY, f64::min);
    let total: f64 = lens.iter().map(|x| x.0).sum();
    let divs = [1.0, 1.0, 2.0, 2.0, 3.0, 3.0, 4.0, 5.0, 6.0, 7.0, 8.0, 10.0, 12.0, 16.0, 20.0, 32.0, 64.0];
    let (mut m, name) = match r.below(100) {
        0..=34 => (r.pick(&lens).0 / *r.pick(&divs), "max:segment_length/integer"),
        35..=39 => (next_up(r.pick(&lens).0 / *r.pick(&divs)), "max:segment_length/integer+1ulp"),
        40..=44 => (next_down(r.pick(&lens).0 / *r.pick(&divs)), "max:segment_length/integer-1ulp"),
        45..=59 => (lmin / (2.0 + 58.0 * r.f01()), "max:far_below_shortest_segment"),
        60..=74 => (lmin + r.f01() * (total - lmin), "max:between_shortest_and_total"),
        75..=79 => (total, "max:total_length"),
        80..=91 => (total * (1.0 + 3.0 * r.f01()), "max:above_total_length"),
        92..=93 => (f64::INFINITY, "max:infinite"),
        _ => (r.range(1, 64) as f64 / (1 << r.range(0, 6)) as f64, "max:small_dyadic"),
    };
    // keep the output small: at most ~4000 pieces per geometry
    while lens.iter().map(|x| (x.0 / m).ceil()).sum::<f64>() > 4000.0 {
        m *= 2.0;
    }
    (m * scale, name)
}

fn densify_gen_case(sh: &mut Shard, r: &mut Rng) {
    let g = gen_dgeom(r);
    let lat = my_lat(r);
    let comps = components(&g).unwrap().0;
    let (maxd, mname) = gen_max(r, &comps, lat.scale());
    sh.class(&format!("densify:type:{}", g.kind()));
    sh.class(mname);
    if lat.ox != 0 || lat.oy != 0 {
        sh.class("densify:lattice_offset");
    }
    let inserted = densify_case(sh, &g, &lat, maxd, false);
    if inserted > 0 {
        let mut h = Fnv::new();
        g.digest(&mut h);
        h.i64(lat.ox);
        h.i64(lat.oy);
        h.i64(lat.sh as i64);
        h.f64(maxd);
        sh.nontrivial(h.0);
        sh.class("densify:points_inserted");
    } else {
        sh.class("densify:nothing_inserted");
    }
    sh.sample(|| json!({"part": "densify", "g": g.json(), "lat": lat.json(), "max": maxd, "stratum": mname, "inserted": inserted}));
}

/// hypot must be exact on the exact-length vectors for the exact strata to mean what they say
fn self_check(sh: &mut Shard) {
    let mut bad = 0;
    for t in TRIPLES {
        for m in [1i64, 2, 3, 4] {
            for s in [-30, 0, 30] {
                let sc = 2f64.powi(s);
                let c = int_len(t.0 * m, t.1 * m).unwrap() as f64 * sc;
                if ((t.0 * m) as f64 * sc).hypot((t.1 * m) as f64 * sc) != c {
                    bad += 1;
                }
            }
        }
    }
    sh.notes.insert("hypot_inexact_on_pythagorean_vectors".into(), json!(bad));
    if bad > 0 {
        sh.inconclusive("libm hypot is not exact on Pythagorean vectors: exact strata degrade to tolerance strata");
    }
}

// =====================================================================================
// densify / length where the SQUARE of a segment length leaves the f64 range (scales 2^-600..2^-520, 2^520..2^600).
// Polylines of Pythagorean-triple steps scaled by a power of two: every segment length is exactly k*2^e
// (hypot is exact there); lengths are not squares, so nothing here needs to leave the range.
// =====================================================================================
pub fn check_extreme_scale(sh: &mut Shard, steps: &[(i64, i64)], e: i32, pieces: u32, verbose: bool) {
    use geo::algorithm::line_measures::Length;
    let s = crate::q::pow2(e);
    let mut pts = vec![Coord { x: 0.0, y: 0.0 }];
    let (mut x, mut y) = (0i64, 0i64);
    let mut total_units = 0i64;
    for &(dx, dy) in steps {
        x += dx;
        y += dy;
        pts.push(Coord { x: x as f64 * s, y: y as f64 * s });
        total_units += int_len(dx, dy).expect("Pythagorean step");
    }
    let ls = LineString::new(pts.clone());
    let longest = steps.iter().map(|&(dx, dy)| int_len(dx, dy).unwrap()).max().unwrap();
    // max so that the longest segment must be cut in exactly `pieces` parts (a quarter of a piece of slack)
    let maxd = longest as f64 * s / (pieces as f64 - 0.25);
    let det = |check: &str, exp: String, got: String| json!({"property": "C15", "check": check, "part": "extreme_scale", "steps": steps, "e": e, "pieces": pieces, "max": maxd, "expected": exp, "got": got, "line": format!("{:?}", pts)});
    sh.eval(1);
    match call(|| Euclidean.length(&ls)) {
        Ok(l) => {
            let exp = total_units as f64 * s;
            if !((l - exp).abs() <= 4.0 * f64::EPSILON * exp) {
                sh.violation("length.extreme_scale|LineString|-", det("length.extreme_scale", format!("{:e}", exp), format!("{:e}", l)));
            }
        }
        Err(p) => sh.violation("length.extreme_scale.panic|LineString|-", det("length.extreme_scale.panic", "no panic".into(), p)),
    }
    sh.eval(1);
    match call(|| Euclidean.densify(&ls, maxd)) {
        Ok(out) => {
            if verbose {
                println!("densify -> {} coordinates", out.0.len());
            }
            // every original vertex kept in order, no segment longer than max, total length unchanged
            let mut it = out.0.iter();
            let kept = pts.iter().all(|p| it.any(|q| same_bits(*p, *q)));
            let seg = |a: &Coord<f64>, b: &Coord<f64>| (b.x - a.x).hypot(b.y - a.y);
            let worst = out.0.windows(2).map(|w| seg(&w[0], &w[1])).fold(0.0f64, f64::max);
            let total: f64 = out.0.windows(2).map(|w| seg(&w[0], &w[1])).sum();
            let exp_total = total_units as f64 * s;
            if !kept {
                sh.violation("densify.extreme_scale.vertices_kept|LineString|-", det("densify.vertices_kept", "every original vertex, in order".into(), format!("{:?}", out.0)));
            } else if !(worst <= maxd * (1.0 + 1e-9)) {
                sh.violation("densify.extreme_scale.max_segment|LineString|-", det("densify.max_segment", format!("no segment longer than {:e}", maxd), format!("a segment of length {:e} ({} coordinates)", worst, out.0.len())));
            } else if !((total - exp_total).abs() <= 1e-9 * exp_total) {
                sh.violation("densify.extreme_scale.length|LineString|-", det("densify.length", format!("{:e}", exp_total), format!("{:e}", total)));
            }
        }
        Err(p) => sh.violation("densify.extreme_scale.panic|LineString|-", det("densify.panic", "a densified line string".into(), p)),
    }
    sh.class(if e < 0 { "densify:scale_where_squares_underflow" } else { "densify:scale_where_squares_overflow" });
}

pub fn run(ctx: &Ctx, sh: &mut Shard) {
    self_check(sh);
    for k in ctx.case_indices() {
        if sh.cases >= ctx.budget {
            break;
        }
        ctx.mark_case(k);
        let mut r = Rng::derive(ctx.seed, ctx.shard, k);
        sh.cases += 1;
        if k % 64 == 9 {
            let n = r.range(1, 4) as usize;
            let steps: Vec<(i64, i64)> = (0..n).map(|_| { let t = *r.pick(&TRIPLES); let (a, b) = if r.chance(1, 2) { t } else { (t.1, t.0) }; (a * if r.chance(1, 2) { 1 } else { -1 }, b * if r.chance(1, 2) { 1 } else { -1 }) }).collect();
            let e = if r.chance(1, 2) { r.range(-600, -520) } else { r.range(520, 600) } as i32;
            check_extreme_scale(sh, &steps, e, r.range(2, 7) as u32, false);
            continue;
        }
        if r.chance(11, 20) {
            interp_case(sh, &mut r);
        } else {
            densify_gen_case(sh, &mut r);
        }
    }
}

pub fn replay(v: &Value, sh: &mut Shard) {
    if v["part"] == "extreme_scale" {
        let steps: Vec<(i64, i64)> = v["steps"].as_array().unwrap().iter().map(|p| (p[0].as_i64().unwrap(), p[1].as_i64().unwrap())).collect();
        check_extreme_scale(sh, &steps, v["e"].as_i64().unwrap() as i32, v["pieces"].as_u64().unwrap() as u32, true);
        return;
    }
    let lat = Lat::from_json(&v["lat"]);
    if v["part"] == "densify" {
        let g = IG::from_json(&v["g"]).expect("g");
        let maxd = unhex(&v["max"]);
        densify_case(sh, &g, &lat, maxd, true);
    } else {
        let pts = pts_from_json(&v["pts"]);
        let lc = LineCtx::new(pts, lat, v["as_line"].as_bool().unwrap_or(false));
        println!("{} {:?} lat {:?}: length {:e}, exact lengths {}, tol_pos {:e}", lc.site, lc.pts, lc.lat, lc.total * lc.scale, lc.exact, lc.tol_pos * lc.scale);
        let x = unhex(&v["probe"]["v"]);
        if v["probe"]["k"] == "D" {
            probe_d(sh, &lc, x, true);
        } else {
            probe_r(sh, &lc, x, true);
        }
    }
}
