//! C04 — boolean operations compute the set-theoretic result.
//! Oracle: exact location functions of the operands (model.rs) evaluated on quarter-lattice sample
//! points, which are provably farther from every input boundary than the fixed-point snapping
//! tolerance (a quarter-lattice point not on a lattice segment of length L is at least 1/(4L) away);
//! membership in the result is an even–odd crossing test on the result's f64 rings.
use crate::gen::*;
use crate::ig::*;
use crate::model::{Loc, Model};
use crate::q::*;
use crate::report::*;
use crate::rng::{Fnv, Rng};
use geo::bool_ops::{unary_union, BooleanOps, OpType};
use geo::{Coord, Geometry, LineString, MultiLineString, MultiPolygon, Polygon};
use serde_json::{json, Value};

fn detail(check: &str, a: &IG, b: &IG, lat: &Lat, expected: String, got: String, extra: Value) -> Value {
    json!({"property": "C04", "check": check, "a": a.json(), "b": b.json(), "lat": lat.json(), "expected": expected, "got": got, "extra": extra,
           "a_geo": format!("{:?}", a.to_geo(lat)), "b_geo": format!("{:?}", b.to_geo(lat))})
}

pub fn to_mp(g: &Geometry<f64>) -> MultiPolygon<f64> {
    match g {
        Geometry::Polygon(p) => MultiPolygon::new(vec![p.clone()]),
        Geometry::MultiPolygon(mp) => mp.clone(),
        _ => MultiPolygon::new(vec![]),
    }
}
/// f64 shoelace area relative to the first vertex (independent of geo's Area)
fn ring_area_f(r: &LineString<f64>) -> f64 {
    if r.0.len() < 3 {
        return 0.0;
    }
    let o = r.0[0];
    let mut s = 0.0;
    for w in r.0.windows(2) {
        s += (w[0].x - o.x) * (w[1].y - o.y) - (w[1].x - o.x) * (w[0].y - o.y);
    }
    s / 2.0
}
fn mp_area_f(mp: &MultiPolygon<f64>) -> f64 {
    mp.0.iter().map(|p| ring_area_f(p.exterior()).abs() - p.interiors().iter().map(|h| ring_area_f(h).abs()).sum::<f64>()).sum()
}
fn inside_f(mp: &MultiPolygon<f64>, x: f64, y: f64) -> bool {
    let mut par = 0;
    for pg in &mp.0 {
        for ring in std::iter::once(pg.exterior()).chain(pg.interiors()) {
            for w in ring.0.windows(2) {
                let (a, b) = (w[0], w[1]);
                let (lo, hi) = if a.y <= b.y { (a, b) } else { (b, a) };
                if lo.y <= y && y < hi.y {
                    let xi = lo.x + (y - lo.y) / (hi.y - lo.y) * (hi.x - lo.x);
                    if xi > x {
                        par += 1;
                    }
                }
            }
        }
    }
    par % 2 == 1
}
fn bbox_i(gs: &[&IG]) -> Option<(i64, i64, i64, i64)> {
    let cs: Vec<IP> = gs.iter().flat_map(|g| g.coords()).collect();
    if cs.is_empty() {
        return None;
    }
    Some((cs.iter().map(|c| c.0).min().unwrap(), cs.iter().map(|c| c.0).max().unwrap(), cs.iter().map(|c| c.1).min().unwrap(), cs.iter().map(|c| c.1).max().unwrap()))
}
/// quarter-lattice sample points of the envelope (±1) with their exact inside flags; boundary points skipped
fn samples(models: &[&Model], bb: (i64, i64, i64, i64), lat: &Lat, stride: i64) -> Vec<(f64, f64, Vec<bool>)> {
    let mut out = vec![];
    let q4 = crate::q::pow2(lat.sh - 2);
    let mut qx = 4 * bb.0 - 3;
    while qx <= 4 * bb.1 + 3 {
        let mut qy = 4 * bb.2 - 3;
        while qy <= 4 * bb.3 + 3 {
            let q = (Q::new(qx as i128, 4), Q::new(qy as i128, 4));
            let locs: Vec<Loc> = models.iter().map(|m| m.loc(q)).collect();
            if !locs.iter().any(|&l| l == Loc::B) {
                let x = (4 * lat.ox + qx) as f64 * q4;
                let y = (4 * lat.oy + qy) as f64 * q4;
                out.push((x, y, locs.iter().map(|&l| l == Loc::I).collect()));
            }
            qy += stride;
        }
        qx += stride;
    }
    out
}

/// Tolerance on positions: the overlay snaps to a fixed-point grid of about extent·2^-30 (we allow
/// extent·2^-25; observed maximum about extent·2^-30), and no result coordinate can be more accurate than the f64 spacing at the magnitude M
/// of the coordinates (4 ulps allowed).
fn pos_tol(ext: f64, lat: &Lat, bb: (i64, i64, i64, i64)) -> f64 {
    let m = [(lat.ox + bb.0), (lat.ox + bb.1), (lat.oy + bb.2), (lat.oy + bb.3)].iter().map(|v| (*v as f64).abs()).fold(0.0, f64::max) * lat.scale();
    ext * crate::q::pow2(-25) + 4.0 * m * crate::q::pow2(-52)
}
fn perimeter(g: &IG, s: f64) -> f64 {
    let mut p = 0.0;
    let mut add = |rings: &Vec<Vec<IP>>| {
        for r in rings {
            for w in r.windows(2) {
                p += ((w[1].0 - w[0].0) as f64).hypot((w[1].1 - w[0].1) as f64) * s;
            }
        }
    };
    match g {
        IG::Polygon(r) => add(r),
        IG::MultiPolygon(ms) => ms.iter().for_each(|m| add(m)),
        _ => {}
    }
    p
}
fn winding_clause(sh: &mut Shard, name: &str, a: &IG, b: &IG, lat: &Lat, res: &MultiPolygon<f64>, ext2: f64) {
    sh.eval(1);
    for pg in &res.0 {
        let ea = ring_area_f(pg.exterior());
        // rings that are numerically flat (slivers from snapping) have no meaningful orientation
        let eps = 1e-9 * ext2;
        let bad_ext = ea < -eps;
        let bad_hole = pg.interiors().iter().any(|h| ring_area_f(h) > eps);
        let open = !pg.exterior().is_closed() || pg.interiors().iter().any(|h| !h.is_closed());
        if bad_ext || bad_hole || open {
            sh.violation(&format!("{name}.winding|result|-"), detail(&format!("{name}.winding"), a, b, lat, "closed rings, exterior counter-clockwise, holes clockwise".into(), format!("{:?}", pg), json!({"exterior_area": ea})));
            return;
        }
    }
}

pub fn check_pair(sh: &mut Shard, a: &IG, b: &IG, lat: &Lat, verbose: bool) {
    sh.cases += 1;
    let (ga, gb) = (to_mp(&a.to_geo(lat)), to_mp(&b.to_geo(lat)));
    let (ma, mb) = (a.to_model(), b.to_model());
    let Some(bb) = bbox_i(&[a, b]) else {
        // both empty: every result must be empty
        for (op, name) in [(OpType::Intersection, "intersection"), (OpType::Union, "union"), (OpType::Difference, "difference"), (OpType::Xor, "xor")] {
            sh.eval(1);
            if let Ok(r) = call(|| ga.boolean_op(&gb, op)) {
                if mp_area_f(&r) != 0.0 {
                    sh.violation(&format!("{name}.empty_operands|MultiPolygon|-"), detail(&format!("{name}.empty_operands"), a, b, lat, "empty".into(), format!("{:?}", r), json!({})));
                }
            }
        }
        sh.class("both_empty");
        return;
    };
    let s = lat.scale();
    let ext = (((bb.1 - bb.0) as f64).hypot((bb.3 - bb.2) as f64)).max(1.0) * s;
    let ext2 = ext * ext;
    let (aa, ab) = match guard(|| (ma.area2().to_f64() / 2.0 * s * s, mb.area2().to_f64() / 2.0 * s * s)) {
        Ok(x) => x,
        Err(_) => {
            sh.inconclusive("oracle:area");
            return;
        }
    };
    // (odd strides for the larger envelopes: every residue of the quarter lattice is still visited)
    let w = (bb.1 - bb.0).max(bb.3 - bb.2);
    let stride = if w > 200 { 2 * (w / 100) + 1 } else if w > 40 { 3 } else if w > 10 { 2 } else { 1 };
    let pts = match guard(|| samples(&[&ma, &mb], bb, lat, stride)) {
        Ok(p) => p,
        Err(_) => {
            sh.inconclusive("oracle:samples");
            return;
        }
    };
    let ops: [(OpType, &str, fn(bool, bool) -> bool); 4] = [(OpType::Intersection, "intersection", |x, y| x && y), (OpType::Union, "union", |x, y| x || y), (OpType::Difference, "difference", |x, y| x && !y), (OpType::Xor, "xor", |x, y| x != y)];
    let mut areas = [0.0f64; 4];
    let mut all_ok = true;
    for (k, (op, name, f)) in ops.iter().enumerate() {
        // through the named method and through boolean_op
        let r1 = call(|| match op {
            OpType::Intersection => ga.intersection(&gb),
            OpType::Union => ga.union(&gb),
            OpType::Difference => ga.difference(&gb),
            OpType::Xor => ga.xor(&gb),
        });
        let r2 = call(|| ga.boolean_op(&gb, *op));
        let res = match (r1, r2) {
            (Ok(r1), Ok(r2)) => {
                sh.eval(1);
                if r1 != r2 {
                    sh.violation(&format!("{name}.named_eq_boolean_op|MultiPolygon|-"), detail(&format!("{name}.named_eq_boolean_op"), a, b, lat, format!("{:?}", r2), format!("{:?}", r1), json!({})));
                }
                r1
            }
            (x, y) => {
                sh.violation(&format!("{name}.panic|MultiPolygon|-"), detail(&format!("{name}.panic"), a, b, lat, "no panic".into(), format!("{:?} {:?}", x.err(), y.err()), json!({"at": last_panic_loc()})));
                all_ok = false;
                continue;
            }
        };
        areas[k] = mp_area_f(&res);
        // membership on every sample point
        let mut bad = None;
        for (x, y, ins) in &pts {
            sh.eval(1);
            let exp = f(ins[0], ins[1]);
            if inside_f(&res, *x, *y) != exp {
                bad = Some((*x, *y, exp));
                break;
            }
        }
        if verbose {
            println!("{name}: {} members, area {:e}, first wrong sample {:?}", res.0.len(), areas[k], bad);
        }
        if let Some((x, y, exp)) = bad {
            sh.violation(&format!("{name}.membership|MultiPolygon|-"), detail(&format!("{name}.membership"), a, b, lat, format!("point ({x},{y}) in result: {exp}"), format!("{} ; result {:?}", !exp, res), json!({})));
            all_ok = false;
        }
        winding_clause(sh, name, a, b, lat, &res, ext2);
        // Polygon operands (not only MultiPolygon) go through the same trait: spot-check the concrete type
        if let (Geometry::Polygon(pa), Geometry::Polygon(pb)) = (a.to_geo(lat), b.to_geo(lat)) {
            sh.eval(1);
            if let Ok(rp) = call(|| pa.boolean_op(&pb, *op)) {
                if rp != res {
                    sh.violation(&format!("{name}.polygon_eq_multipolygon|Polygon|-"), detail(&format!("{name}.polygon_eq_multipolygon"), a, b, lat, format!("{:?}", res), format!("{:?}", rp), json!({})));
                }
            }
        }
    }
    // area identities (tolerance: snapping moves result vertices by ~extent·2^-30; 2^-20·extent² leaves a factor 10^2..10^3)
    if all_ok {
        // each result vertex may be displaced by pos_tol; the area changes by at most displacement x perimeter
        // (the result's boundary is made of pieces of the operands' boundaries)
        let tol = 4.0 * pos_tol(ext, lat, bb) * (perimeter(a, s) + perimeter(b, s)).max(ext);
        let (ai, au, ad, ax) = (areas[0], areas[1], areas[2], areas[3]);
        let ids = [("area.inter_plus_union", ai + au, aa + ab), ("area.difference", ad, aa - ai), ("area.xor", ax, au - ai)];
        for (name, got, exp) in ids {
            sh.eval(1);
            sh.maximum("area_identity_err_over_tol", (got - exp).abs() / tol);
            if !((got - exp).abs() <= tol) {
                sh.violation(&format!("{name}|MultiPolygon|-"), detail(name, a, b, lat, format!("{:e}", exp), format!("{:e}", got), json!({"areas": [ai, au, ad, ax, aa, ab]})));
            }
        }
    }
    sh.class(&format!("operands:{}x{}", a.kind(), b.kind()));
    if a.is_empty() || b.is_empty() {
        sh.class("empty_operand");
    }
    let rel = guard(|| crate::model::relate(&ma, &mb));
    if let Ok(rel) = rel {
        for n in rel.classes.names() {
            sh.class(&format!("class:{n}"));
        }
        if rel.m[0][0] == 2 {
            sh.class("interiors_overlap");
        }
    }
    sh.class_n("sample_points", pts.len() as u64);
    let mut h = Fnv::new();
    a.digest(&mut h);
    b.digest(&mut h);
    if !a.is_empty() && !b.is_empty() {
        sh.nontrivial(h.0);
    }
    sh.sample(|| json!({"a": format!("{:?}", ga), "b": format!("{:?}", gb), "sample_points": pts.len(), "areas_i_u_d_x": areas}));
}

// ------------------------------------------------------------------ unary_union
fn orient_poly(rings: &[Vec<IP>], ccw: bool) -> Vec<Vec<IP>> {
    rings
        .iter()
        .enumerate()
        .map(|(k, r)| {
            let want_pos = if k == 0 { ccw } else { !ccw };
            let mut r = r.clone();
            if (ring_area2(&r) > 0) != want_pos {
                r.reverse();
            }
            r
        })
        .collect()
}
pub fn check_unary(sh: &mut Shard, members: &[IG], ccw: bool, lat: &Lat, verbose: bool) {
    sh.cases += 1;
    let polys: Vec<Polygon<f64>> = members
        .iter()
        .filter_map(|m| match m {
            IG::Polygon(r) => match IG::Polygon(orient_poly(r, ccw)).to_geo(lat) {
                Geometry::Polygon(p) => Some(p),
                _ => None,
            },
            _ => None,
        })
        .collect();
    let models: Vec<Model> = members.iter().map(|m| m.to_model()).collect();
    let refs: Vec<&Model> = models.iter().collect();
    let igs: Vec<&IG> = members.iter().collect();
    let Some(bb) = bbox_i(&igs) else { return };
    let det = |check: &str, exp: String, got: String| json!({"property": "C04", "check": check, "kind": "unary_union", "members": members.iter().map(|m| m.json()).collect::<Vec<_>>(), "ccw": ccw, "lat": lat.json(), "expected": exp, "got": got});
    let res = match call(|| unary_union(&polys)) {
        Ok(r) => r,
        Err(p) => {
            sh.violation("unary_union.panic|Polygon|-", det("unary_union.panic", "no panic".into(), p));
            return;
        }
    };
    let fold = match call(|| polys.iter().fold(MultiPolygon::new(vec![]), |acc, p| acc.union(p))) {
        Ok(r) => r,
        Err(_) => return,
    };
    // the same collection handed over as MultiPolygons (pairs of members; an empty MultiPolygon leads when the
    // number of members is odd - e.g. the seed of a fold): same consistently wound rings, same region
    let mut groups: Vec<MultiPolygon<f64>> = polys.chunks(2).map(|c| MultiPolygon::new(c.to_vec())).collect();
    if polys.len() % 2 == 1 {
        groups.insert(0, MultiPolygon::new(vec![]));
    }
    let res_groups = match call(|| unary_union(&groups)) {
        Ok(r) => r,
        Err(p) => {
            sh.violation("unary_union.panic|MultiPolygon|-", det("unary_union.panic", "no panic".into(), p));
            return;
        }
    };
    let w = (bb.1 - bb.0).max(bb.3 - bb.2);
    let stride = if w > 40 { 3 } else if w > 10 { 2 } else { 1 };
    let pts = match guard(|| samples(&refs, bb, lat, stride)) {
        Ok(p) => p,
        Err(_) => {
            sh.inconclusive("oracle:samples");
            return;
        }
    };
    for (x, y, ins) in &pts {
        sh.eval(1);
        let exp = ins.iter().any(|&i| i);
        let (g1, g2) = (inside_f(&res, *x, *y), inside_f(&fold, *x, *y));
        let g3 = inside_f(&res_groups, *x, *y);
        if g3 != exp {
            sh.violation("unary_union.region|MultiPolygon|-", det("unary_union.region", format!("point ({x},{y}) covered: {exp}"), format!("{g3}; result for the members grouped in MultiPolygons {:?}", res_groups)));
            break;
        }
        if g1 != exp || g2 != g1 {
            sh.violation("unary_union.region|Polygon|-", det("unary_union.region", format!("point ({x},{y}) covered: {exp} (fold of unions: {g2})"), format!("{g1}; result {:?}", res)));
            break;
        }
    }
    let s = lat.scale();
    let ext2 = (((bb.1 - bb.0) as f64).hypot((bb.3 - bb.2) as f64)).max(1.0).powi(2) * s * s;
    sh.eval(1);
    let (a1, a2) = (mp_area_f(&res), mp_area_f(&fold));
    if verbose {
        println!("unary_union: area {:e}, fold of unions {:e}", a1, a2);
    }
    let ext_u = ext2.sqrt();
    let per: f64 = members.iter().map(|m| perimeter(m, s)).sum();
    if !((a1 - a2).abs() <= 4.0 * pos_tol(ext_u, lat, bb) * per.max(ext_u)) {
        sh.violation("unary_union.area_eq_fold|Polygon|-", det("unary_union.area_eq_fold", format!("{:e}", a2), format!("{:e}", a1)));
    }
    // winding of the result
    sh.eval(1);
    for pg in &res.0 {
        let eps = 1e-9 * ext2;
        if ring_area_f(pg.exterior()) < -eps || pg.interiors().iter().any(|h| ring_area_f(h) > eps) {
            sh.violation("unary_union.winding|result|-", det("unary_union.winding", "exterior ccw, holes cw".into(), format!("{:?}", pg)));
            break;
        }
    }
    sh.class(&format!("unary_union:{}members:{}", members.len().min(9), if ccw { "ccw" } else { "cw" }));
    let mut h = Fnv::new();
    for m in members {
        m.digest(&mut h);
    }
    if members.len() >= 2 {
        sh.nontrivial(h.0);
    }
    sh.sample(|| json!({"kind": "unary_union", "members": polys.iter().map(|p| format!("{:?}", p)).collect::<Vec<_>>(), "area": a1}));
}

// ------------------------------------------------------------------ clip
fn ls_len(l: &LineString<f64>) -> f64 {
    l.0.windows(2).map(|w| (w[1].x - w[0].x).hypot(w[1].y - w[0].y)).sum()
}
pub fn check_clip(sh: &mut Shard, poly: &IG, lines: &[Vec<IP>], lat: &Lat, verbose: bool) {
    sh.cases += 1;
    let gp = to_mp(&poly.to_geo(lat));
    let pm = poly.to_model();
    let mls = MultiLineString::new(lines.iter().map(|l| LineString::new(l.iter().map(|&p| lat.c(p)).collect())).collect());
    let det = |check: &str, exp: String, got: String| json!({"property": "C04", "check": check, "kind": "clip", "poly": poly.json(), "lines": lines, "lat": lat.json(), "expected": exp, "got": got, "poly_geo": format!("{:?}", gp), "lines_geo": format!("{:?}", mls)});
    let (rin, rout) = match (call(|| gp.clip(&mls, false)), call(|| gp.clip(&mls, true))) {
        (Ok(a), Ok(b)) => (a, b),
        (a, b) => {
            sh.violation("clip.panic|MultiPolygon|-", det("clip.panic", "no panic".into(), format!("{:?} {:?}", a.err(), b.err())));
            return;
        }
    };
    let s = lat.scale();
    let total: f64 = mls.0.iter().map(ls_len).sum();
    // exact split of the input at the polygon boundary: expected inside / boundary / outside lengths
    let segs = pm.segs();
    let (mut lin, mut lbd, mut lout) = (0.0f64, 0.0f64, 0.0f64);
    let r = guard(|| {
        for l in lines {
            for w in l.windows(2) {
                let (s0, s1) = (pi(w[0].0, w[0].1), pi(w[1].0, w[1].1));
                if s0 == s1 {
                    continue;
                }
                let usex = s0.0 != s1.0;
                let key = |q: P| if usex { q.0 } else { q.1 };
                let mut pts = vec![s0, s1];
                for &(t0, t1) in &segs {
                    match seg_x(s0, s1, t0, t1) {
                        SegX::None => {}
                        SegX::Point(p) => pts.push(p),
                        SegX::Overlap(p, q) => {
                            pts.push(p);
                            pts.push(q)
                        }
                    }
                }
                pts.sort_by(|x, y| key(*x).cmp(&key(*y)));
                pts.dedup();
                for z in pts.windows(2) {
                    let len = dist2(z[0], z[1]).to_f64().sqrt() * s;
                    match pm.loc(mid(z[0], z[1])) {
                        Loc::I => lin += len,
                        Loc::B => lbd += len,
                        Loc::E => lout += len,
                    }
                }
            }
        }
    });
    if r.is_err() {
        sh.inconclusive("oracle:clip split");
        return;
    }
    let (gin, gout): (f64, f64) = (rin.0.iter().map(ls_len).sum(), rout.0.iter().map(ls_len).sum());
    let ext = total.max(s);
    let igs = [poly];
    let bbp = bbox_i(&igs).unwrap_or((0, 0, 0, 0));
    let lc: Vec<IP> = lines.iter().flatten().cloned().collect();
    let bb = (bbp.0.min(lc.iter().map(|c| c.0).min().unwrap_or(0)), bbp.1.max(lc.iter().map(|c| c.0).max().unwrap_or(0)), bbp.2.min(lc.iter().map(|c| c.1).min().unwrap_or(0)), bbp.3.max(lc.iter().map(|c| c.1).max().unwrap_or(0)));
    let ptol = pos_tol(ext, lat, bb);
    // every cut point may be displaced by ptol; a line with n segments crossing a polygon with m segments has <= n·m cuts
    let tol = ptol * 4.0 * (lc.len() * poly.n_segments().max(1)) as f64;
    if verbose {
        println!("clip: total {total:e} expected inside {lin:e} boundary {lbd:e} outside {lout:e}; got inside {gin:e} outside {gout:e}");
    }
    // inside parts: interior pieces must be kept; pieces running along the boundary may be kept (boundary included)
    sh.eval(3);
    sh.maximum("clip_len_err_over_tol", ((gin - lin).abs().min((gin - lin - lbd).abs())) / tol);
    if gin < lin - tol || gin > lin + lbd + tol {
        sh.violation("clip.inside_length|MultiPolygon|-", det("clip.inside_length", format!("between {:e} and {:e}", lin, lin + lbd), format!("{:e}", gin)));
    }
    if gout < lout - tol || gout > lout + lbd + tol {
        sh.violation("clip.outside_length|MultiPolygon|-", det("clip.outside_length", format!("between {:e} and {:e}", lout, lout + lbd), format!("{:e}", gout)));
    }
    // total length conserved: every part of the line is kept by exactly one of the two calls
    if !((gin + gout - total).abs() <= tol) {
        let cls = "-";
        sh.violation(&format!("clip.length_conserved|MultiPolygon|{cls}"), det("clip.length_conserved", format!("{:e}", total), format!("{:e} (inside {:e} + outside {:e}; boundary-running length {:e})", gin + gout, gin, gout, lbd)));
    }
    // every returned piece lies where it should: midpoints of result segments, judged exactly with a snap allowance
    let tau_l = (8.0 * ptol / s).max(crate::q::pow2(-30));
    let tau2 = Q::from_f64(crate::q::pow2((tau_l * tau_l).log2().ceil() as i32)).unwrap_or(Q::new(1, 1 << 20));
    for (res, inverted) in [(&rin, false), (&rout, true)] {
        'pieces: for l in &res.0 {
            for w in l.0.windows(2) {
                sh.eval(1);
                let m = Coord { x: (w[0].x + w[1].x) / 2.0, y: (w[0].y + w[1].y) / 2.0 };
                let Some(q) = lat.inv(m) else {
                    sh.inconclusive("clip midpoint not representable");
                    continue;
                };
                let verdict = guard(|| {
                    let l = pm.loc(q);
                    let wrong = if inverted { l == Loc::I } else { l == Loc::E };
                    if !wrong {
                        return true;
                    }
                    // allowed if within the snapping distance of the boundary
                    segs.iter().any(|&(t0, t1)| pt_seg_dist2(q, t0, t1) <= tau2)
                });
                match verdict {
                    Ok(true) => {}
                    Ok(false) => {
                        sh.violation("clip.piece_location|MultiPolygon|-", det("clip.piece_location", if inverted { "outside or on the boundary" } else { "inside or on the boundary" }.into(), format!("segment {:?}-{:?} of {:?}", w[0], w[1], l)));
                        break 'pieces;
                    }
                    Err(_) => sh.inconclusive("oracle:clip piece"),
                }
            }
        }
    }
    sh.class("clip");
    if lbd > 0.0 {
        sh.class("clip:runs_along_boundary");
    }
    if lin > 0.0 && lout > 0.0 {
        sh.class("clip:crosses_boundary");
    }
    let mut h = Fnv::new();
    poly.digest(&mut h);
    for l in lines {
        for p in l {
            h.i64(p.0);
            h.i64(p.1);
        }
    }
    if lin > 0.0 || lbd > 0.0 {
        sh.nontrivial(h.0);
    }
    sh.sample(|| json!({"kind": "clip", "polygon": format!("{:?}", gp), "lines": format!("{:?}", mls), "inside": gin, "outside": gout, "total": total}));
}

fn add_repeats(r: &mut Rng, g: &IG) -> IG {
    let rep = |r: &mut Rng, ring: &Vec<IP>| -> Vec<IP> {
        let mut v = ring.clone();
        if v.len() < 4 {
            return v;
        }
        match r.below(3) {
            0 => {
                // repeated closing vertex
                let f = v[0];
                v.push(f);
            }
            1 => {
                let i = r.below(v.len() as u64) as usize;
                let p = v[i];
                v.insert(i, p);
            }
            _ => {
                // repeated first vertex
                let f = v[0];
                v.insert(0, f);
            }
        }
        v
    };
    match g {
        IG::Polygon(rings) => IG::Polygon(rings.iter().map(|x| rep(r, x)).collect()),
        IG::MultiPolygon(ms) => IG::MultiPolygon(ms.iter().map(|m| m.iter().map(|x| rep(r, x)).collect()).collect()),
        o => o.clone(),
    }
}

fn gen_areal(r: &mut Rng, g: i64) -> IG {
    loop {
        let k = *r.pick(&["Polygon", "Polygon", "PolygonHoles", "MultiPolygon", "Rect", "Triangle"]);
        if let Some(x) = gen_kind(r, k, g) {
            let x = match x {
                IG::Rect(p, q) => IG::Polygon(vec![IG::rect_ring(p, q)]),
                IG::Triangle(p, q, s) => IG::Polygon(vec![vec![p, q, s, p]]),
                o => o,
            };
            return x;
        }
    }
}
fn areal_partner(r: &mut Rng, a: &IG, g: i64) -> IG {
    for _ in 0..30 {
        let c = match r.below(8) {
            0 => a.clone(),
            1 => a.translate(r.range(-2, 2), r.range(-2, 2)),
            2 => IG::Polygon(vec![]),
            3 => {
                // shares an edge: envelope-adjacent rectangle
                let cs = a.coords();
                if cs.is_empty() {
                    continue;
                }
                let x1 = cs.iter().map(|c| c.0).max().unwrap();
                let (y0, y1) = (cs.iter().map(|c| c.1).min().unwrap(), cs.iter().map(|c| c.1).max().unwrap());
                IG::Polygon(vec![IG::rect_ring((x1, y0), (x1 + r.range(1, 3), y1.max(y0 + 1)))])
            }
            _ => partner(r, a, g),
        };
        if matches!(c, IG::Polygon(_) | IG::MultiPolygon(_)) && c.valid() {
            return c;
        }
        if let IG::Rect(p, q) = c {
            if p.0 != q.0 && p.1 != q.1 {
                return IG::Polygon(vec![IG::rect_ring(p, q)]);
            }
        }
        if let IG::Triangle(p, q, s) = c {
            if orient_i(p, q, s) != 0 {
                return IG::Polygon(vec![vec![p, q, s, p]]);
            }
        }
    }
    gen_areal(r, g)
}

pub fn run(ctx: &Ctx, sh: &mut Shard) {
    for k in ctx.case_indices() {
        if sh.cases >= ctx.budget {
            break;
        }
        ctx.mark_case(k);
        let mut r = Rng::derive(ctx.seed, ctx.shard, k);
        let g = *r.pick(&[3i64, 4, 4, 5, 6, 8]);
        let lat = Lat::random(&mut r);
        // one case in 500: a collection of realistic size - 60-150 cells of a grid (apart, or sharing edges), some of them
        // with a hole, one of them larger with a hole around others' - for unary_union; and a track of 130-700 coordinates
        // zig-zagging across a polygon, for clip
        if k % 500 == 57 {
            let (nx, ny) = (r.range(6, 12), r.range(8, 12));
            let side = 4;
            let pitch = if r.chance(1, 2) { 4 } else { 5 };
            let mut ms: Vec<IG> = vec![];
            for j in 0..ny {
                for i in 0..nx {
                    let (x, y) = (i * pitch, j * pitch);
                    let shell = vec![(x, y), (x + side, y), (x + side, y + side), (x, y + side), (x, y)];
                    if r.chance(1, 4) {
                        ms.push(IG::Polygon(vec![shell, vec![(x + 1, y + 1), (x + 1, y + 3), (x + 3, y + 3), (x + 3, y + 1), (x + 1, y + 1)]]));
                    } else {
                        ms.push(IG::Polygon(vec![shell]));
                    }
                }
            }
            // a frame around a part of the grid: a member with a hole that other members lie in
            if r.chance(1, 2) {
                let (x0, y0, x1, y1) = (-2, -2, nx * pitch + 2, ny * pitch + 2);
                let at = r.below(ms.len() as u64 + 1) as usize;
                ms.insert(at, IG::Polygon(vec![vec![(x0 - 2, y0 - 2), (x1 + 2, y0 - 2), (x1 + 2, y1 + 2), (x0 - 2, y1 + 2), (x0 - 2, y0 - 2)], vec![(x0, y0), (x0, y1), (x1, y1), (x1, y0), (x0, y0)]]));
            }
            if r.chance(1, 2) {
                r.shuffle(&mut ms);
            }
            sh.class("unary_union:grid_of_60_to_150_members");
            check_unary(sh, &ms, r.chance(1, 2), &Lat { shear: 0, ..lat }, false);
            // clip: a long zigzag across a comb / plate / star
            let p = loop {
                let (x, _) = gen_large(&mut r);
                if matches!(x, IG::Polygon(_) | IG::MultiPolygon(_)) && x.valid() {
                    break x;
                }
            };
            let cs = p.coords();
            let (x0, x1) = (cs.iter().map(|c| c.0).min().unwrap(), cs.iter().map(|c| c.0).max().unwrap());
            let (y0, y1) = (cs.iter().map(|c| c.1).min().unwrap(), cs.iter().map(|c| c.1).max().unwrap());
            let n = crate::gen::long_count(&mut r) as i64;
            let horizontal = r.chance(1, 2);
            // strictly monotone along one axis (simple), swinging across the whole extent in the other
            let line: Vec<IP> = (0..n)
                .map(|i| {
                    let t = if horizontal { (x0 - 2, x1 + 2) } else { (y0 - 2, y1 + 2) };
                    let along = t.0 * 8 + i * ((t.1 - t.0) * 8 / n.max(1)).max(1);
                    let across = if horizontal { (y0 - 1, y1 + 1) } else { (x0 - 1, x1 + 1) };
                    let a = (if i % 2 == 0 { across.0 } else { across.1 }) * 8 + r.range(0, 7);
                    if horizontal { (along, a) } else { (a, along) }
                })
                .collect();
            // the polygon on the 8-fold lattice, so that the track's steps are lattice steps
            let p8 = p.map(&|q| (8 * q.0, 8 * q.1));
            if simple_linestring(&line) {
                sh.class("clip:track_of_realistic_length");
                check_clip(sh, &p8, &[line], &Lat { shear: 0, ..lat }, false);
            }
            continue;
        }
        match k % 8 {
            6 => {
                // unary_union of a consistently wound collection (members may overlap)
                // (from a single member on: a collection that contributes one ring in total is a legitimate input too)
                let n = r.range(1, if ctx.tier == "thorough" { 12 } else { 6 });
                let mut ms = vec![];
                for _ in 0..n {
                    let k2 = *r.pick(&["Polygon", "Polygon", "PolygonHoles"]);
                    if let Some(p) = gen_kind(&mut r, k2, g) {
                        ms.push(p.translate(r.range(-g, g), r.range(-g, g)));
                    }
                }
                let ccw = r.chance(1, 2);
                // an empty member (no ring at all) now and then, half of the time in front
                if r.chance(1, 4) {
                    let at = if r.chance(1, 2) { 0 } else { r.range(0, ms.len() as i64) as usize };
                    ms.insert(at, IG::Polygon(vec![]));
                }
                // repeated vertices (incl. a repeated closing vertex, which winding detection has to skip), ring start at
                // the lexicographically least vertex one time in three (that is where the winding pivot sits)
                if r.chance(1, 2) {
                    ms = ms.iter().map(|m| match m {
                        IG::Polygon(rings) => {
                            // orient first, so that the repetition stays at the closing end of the ring
                            let rings = orient_poly(rings, ccw);
                            let rings: Vec<Vec<IP>> = rings.iter().map(|ring| {
                                if ring.len() >= 4 && r.chance(1, 3) {
                                    let mut v = ring[..ring.len() - 1].to_vec();
                                    let least = (0..v.len()).min_by_key(|&i| v[i]).unwrap();
                                    v.rotate_left(least);
                                    let f = v[0];
                                    v.push(f);
                                    v
                                } else {
                                    ring.clone()
                                }
                            }).collect();
                            add_repeats(&mut r, &IG::Polygon(rings))
                        }
                        o => o.clone(),
                    }).collect();
                }
                check_unary(sh, &ms, ccw, &lat, false);
            }
            7 => {
                let p = gen_areal(&mut r, g);
                let nl = r.range(1, 2);
                let mut lines = vec![];
                for _ in 0..nl {
                    // simple line strings through interesting points of the polygon (vertices, points on edges => runs along the boundary)
                    for _ in 0..20 {
                        let n = r.range(2, 5);
                        let l: Vec<IP> = (0..n).map(|_| interesting_point(&mut r, &p, g)).collect();
                        if simple_linestring(&l) {
                            lines.push(l);
                            break;
                        }
                    }
                }
                while lines.len() > 1 && !simple_mls(&lines) {
                    lines.pop();
                }
                if !lines.is_empty() {
                    check_clip(sh, &p, &lines, &lat, false);
                }
            }
            // one case in 120: operands with many rings / members / a node of high degree (hole grid, checkerboard, fan of
            // triangles, star polygon) against a moved copy, a rectangle over a quarter, or another such shape
            _ if k % 120 == 31 => {
                let areal = |x: &IG| matches!(x, IG::Polygon(_) | IG::MultiPolygon(_) | IG::Rect(..));
                let a = loop {
                    let (x, cls) = gen_large(&mut r);
                    if areal(&x) && x.valid() {
                        sh.class(cls);
                        break x;
                    }
                };
                let mut b = None;
                for _ in 0..12 {
                    let x = large_partner(&mut r, &a);
                    if areal(&x) && x.valid() {
                        b = Some(x);
                        break;
                    }
                }
                let Some(b) = b else { continue };
                let b = match b {
                    IG::Rect(p, q) => IG::Polygon(vec![IG::rect_ring(p, q)]),
                    o => o,
                };
                let (a, b) = if r.chance(1, 2) { (a, b) } else { (b, a) };
                if a.n_segments() + b.n_segments() > 600 {
                    continue;
                }
                let lat = Lat { shear: 0, ..lat };
                check_pair(sh, &a, &b, &lat, false);
            }
            _ => {
                let a = gen_areal(&mut r, g);
                let b = areal_partner(&mut r, &a, g);
                let (a, b) = if r.chance(1, 5) { (add_repeats(&mut r, &a), add_repeats(&mut r, &b)) } else { (a, b) };
                let (a, b) = if r.chance(1, 2) { (a, b) } else { (b, a) };
                if a.n_segments() + b.n_segments() > 80 {
                    continue;
                }
                check_pair(sh, &a, &b, &lat, false);
            }
        }
    }
}

pub fn replay(v: &Value, sh: &mut Shard) {
    let lat = Lat::from_json(&v["lat"]);
    match v["kind"].as_str().unwrap_or("") {
        "unary_union" => {
            let ms: Vec<IG> = v["members"].as_array().unwrap().iter().map(|m| IG::from_json(m).unwrap()).collect();
            check_unary(sh, &ms, v["ccw"].as_bool().unwrap(), &lat, true);
        }
        "clip" => {
            let p = IG::from_json(&v["poly"]).unwrap();
            let lines: Vec<Vec<IP>> = v["lines"].as_array().unwrap().iter().map(|l| l.as_array().unwrap().iter().map(|p| (p[0].as_i64().unwrap(), p[1].as_i64().unwrap())).collect()).collect();
            check_clip(sh, &p, &lines, &lat, true);
        }
        _ => {
            let a = IG::from_json(&v["a"]).unwrap();
            let b = IG::from_json(&v["b"]).unwrap();
            println!("A = {:?}\nB = {:?}", a.to_geo(&lat), b.to_geo(&lat));
            check_pair(sh, &a, &b, &lat, true);
        }
    }
}
