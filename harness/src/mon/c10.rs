//! C10 — triangulations and monotone subdivision tile the polygon exactly.
//! All pieces have polygon vertices (lattice points) as corners, so every clause is decided in exact
//! integer / rational arithmetic on the lattice preimage.
use crate::gen::*;
use crate::ig::*;
use crate::model::{self, Loc, Model};
use crate::q::*;
use crate::report::*;
use crate::rng::{Fnv, Rng};
use geo::algorithm::triangulate_delaunay::DelaunayTriangulationConfig;
use geo::{Coord, Intersects, MonotonicPolygons, MultiPolygon, Polygon, StitchTriangles, Triangle, TriangulateDelaunay, TriangulateEarcut};
use serde_json::{json, Value};
use std::collections::HashMap;

fn detail(check: &str, a: &IG, lat: &Lat, expected: String, got: String, extra: Value) -> Value {
    json!({"property": "C10", "check": check, "a": a.json(), "lat": lat.json(), "expected": expected, "got": got, "extra": extra, "a_geo": format!("{:?}", a.to_geo(lat))})
}

fn tri_area2(t: &[IP; 3]) -> i128 {
    orient_i(t[0], t[1], t[2])
}
/// interiors of two (non-degenerate) lattice triangles intersect? exact separating-axis test
fn tri_interiors_meet(a: &[IP; 3], b: &[IP; 3]) -> bool {
    let ccw = |t: &[IP; 3]| if tri_area2(t) > 0 { *t } else { [t[0], t[2], t[1]] };
    let (a, b) = (ccw(a), ccw(b));
    let separated = |p: &[IP; 3], q: &[IP; 3]| (0..3).any(|i| q.iter().all(|&v| orient_i(p[i], p[(i + 1) % 3], v) <= 0));
    !(separated(&a, &b) || separated(&b, &a))
}

struct Pieces {
    tris: Vec<[IP; 3]>,
    foreign_vertex: Option<String>,
}
fn to_lattice_tris(ts: &[Triangle<f64>], lat: &Lat, verts: &HashMap<(u64, u64), IP>) -> Pieces {
    let mut tris = vec![];
    let mut foreign = None;
    for t in ts {
        let mut c = [(0, 0); 3];
        for (k, v) in [t.0, t.1, t.2].iter().enumerate() {
            match verts.get(&(v.x.to_bits(), v.y.to_bits())) {
                Some(&p) => c[k] = p,
                None => {
                    foreign = Some(format!("{:?}", v));
                }
            }
        }
        tris.push(c);
    }
    let _ = lat;
    Pieces { tris, foreign_vertex: foreign }
}

fn polys_of(a: &IG) -> Vec<Vec<Vec<IP>>> {
    match a {
        IG::Polygon(r) => vec![r.clone()],
        IG::MultiPolygon(ms) => ms.clone(),
        _ => vec![],
    }
}
fn rings_touch(a: &IG) -> bool {
    // any two rings of the geometry (of the same member or of different members) share a point
    let rings: Vec<Vec<IP>> = polys_of(a).into_iter().flatten().collect();
    for i in 0..rings.len() {
        for j in i + 1..rings.len() {
            match ring_touch_points(&rings[i], &rings[j]) {
                Ok(c) if c.is_empty() => {}
                _ => return true,
            }
        }
    }
    false
}

/// common judgement of a triangle set claimed to tile `region` (area2 = twice its exact area)
fn judge_triangles(sh: &mut Shard, name: &str, a: &IG, lat: &Lat, region: &Model, region_area2: i128, p: &Pieces, check_inside: bool, verbose: bool) {
    let site = format!("{name}:{}", a.kind());
    sh.eval(1);
    if let Some(f) = &p.foreign_vertex {
        sh.violation(&format!("{name}.corner_is_polygon_vertex|{site}|-"), detail(&format!("{name}.corner_is_polygon_vertex"), a, lat, "only input vertices".into(), f.clone(), json!({})));
        return;
    }
    // degenerate triangles
    sh.eval(1);
    let sum: i128 = p.tris.iter().map(|t| tri_area2(t).abs()).sum();
    if verbose {
        println!("{name}: {} triangles, area2 sum {} expected {}", p.tris.len(), sum, region_area2);
    }
    if sum != region_area2 {
        sh.violation(&format!("{name}.area_sum|{site}|-"), detail(&format!("{name}.area_sum"), a, lat, format!("{}", region_area2), format!("{}", sum), json!({"triangles": p.tris.len()})));
    }
    sh.eval(1);
    'outer: for i in 0..p.tris.len() {
        if tri_area2(&p.tris[i]) == 0 {
            continue;
        }
        for j in i + 1..p.tris.len() {
            if tri_area2(&p.tris[j]) == 0 {
                continue;
            }
            if tri_interiors_meet(&p.tris[i], &p.tris[j]) {
                sh.violation(&format!("{name}.disjoint_interiors|{site}|-"), detail(&format!("{name}.disjoint_interiors"), a, lat, "pairwise disjoint interiors".into(), format!("{:?} and {:?} overlap", p.tris[i], p.tris[j]), json!({})));
                break 'outer;
            }
        }
    }
    if check_inside {
        for t in &p.tris {
            if tri_area2(t) == 0 {
                sh.class(&format!("{name}:degenerate_triangle"));
                continue;
            }
            sh.eval(1);
            let tm = Model::Ars(vec![vec![vec![pi(t[0].0, t[0].1), pi(t[1].0, t[1].1), pi(t[2].0, t[2].1), pi(t[0].0, t[0].1)]]]);
            match guard(|| model::relate(region, &tm)) {
                Ok(rel) => {
                    if rel.m[2][0] >= 0 || rel.m[2][1] >= 0 {
                        sh.violation(&format!("{name}.inside_polygon|{site}|-"), detail(&format!("{name}.inside_polygon"), a, lat, "triangle within the polygon".into(), format!("{:?} reaches the exterior (matrix {})", t, model::mstr(&rel.m)), json!({})));
                        break;
                    }
                }
                Err(_) => sh.inconclusive("oracle:relate(triangle)"),
            }
        }
    }
    sh.class_n(&format!("{name}:triangles"), p.tris.len() as u64);
}

fn hull_area2(pts: &[IP]) -> i128 {
    let mut p: Vec<IP> = pts.to_vec();
    p.sort();
    p.dedup();
    if p.len() < 3 {
        return 0;
    }
    let mut h: Vec<IP> = vec![];
    for pass in 0..2 {
        let start = h.len();
        let it: Box<dyn Iterator<Item = &IP>> = if pass == 0 { Box::new(p.iter()) } else { Box::new(p.iter().rev()) };
        for &q in it {
            while h.len() >= start + 2 && orient_i(h[h.len() - 2], h[h.len() - 1], q) <= 0 {
                h.pop();
            }
            h.push(q);
        }
        h.pop();
    }
    let f = h[0];
    h.push(f);
    ring_area2(&h).abs()
}

pub fn check_one(sh: &mut Shard, a: &IG, lat: &Lat, verbose: bool) {
    sh.cases += 1;
    let g = a.to_geo(lat);
    let model = a.to_model();
    let area2: i128 = match guard(|| model.area2()) {
        Ok(q) => q.n,
        Err(_) => {
            sh.inconclusive("oracle:area");
            return;
        }
    };
    let mut verts: HashMap<(u64, u64), IP> = HashMap::new();
    for p in a.coords() {
        let c = lat.c(p);
        verts.insert((c.x.to_bits(), c.y.to_bits()), p);
    }
    let touching = rings_touch(a);
    let polys: Vec<Polygon<f64>> = match &g {
        geo::Geometry::Polygon(p) => vec![p.clone()],
        geo::Geometry::MultiPolygon(mp) => mp.0.clone(),
        _ => return,
    };
    let ipolys = polys_of(a);
    // ---------------- ear-cut (per polygon; domain: rings do not touch one another)
    // (on the sheared lattice only the monotone subdivision is judged: it is built on exact predicates alone; ear-cut
    // and the Delaunay family compute with rounded areas / snapped coordinates and are not asked to survive slivers
    // of aspect ratio 1e9 here)
    for (k, p) in polys.iter().enumerate().filter(|_| lat.shear == 0) {
        let ia = IG::Polygon(ipolys[k].clone());
        let pm = ia.to_model();
        let pa2 = pm.area2().n;
        let touch = rings_touch(&ia);
        match call(|| p.earcut_triangles()) {
            Ok(ts) => {
                if touch {
                    sh.class("earcut:observe_only_touching_rings");
                } else {
                    let pieces = to_lattice_tris(&ts, lat, &verts);
                    judge_triangles(sh, "earcut", &ia, lat, &pm, pa2, &pieces, true, verbose);
                }
            }
            Err(e) => {
                if !touch {
                    sh.violation(&format!("earcut.panic|{}|-", a.kind()), detail("earcut.panic", &ia, lat, "no panic".into(), e, json!({"at": last_panic_loc()})));
                }
            }
        }
    }
    // ---------------- Delaunay family. The snap radius is an ABSOLUTE distance (default 1e-4): the default
    // configuration is used while the lattice spacing 2^sh is at least 2^-12 = 2.4e-4 (no two distinct vertices
    // within the radius); below that, and for one input in three at any scale, an explicit radius of a quarter of
    // the spacing.
    if lat.shear == 0 {
        let explicit = lat.sh < -12 || a.n_segments() % 3 == 0;
        let radius = 0.25 * crate::q::pow2(lat.sh);
        sh.class(if explicit { "delaunay:explicit_snap_radius(spacing/4)" } else { "delaunay:default_snap_radius" });
        let cfg = || if explicit { DelaunayTriangulationConfig { snap_radius: radius } } else { DelaunayTriangulationConfig::default() };
        let container = if matches!(g, geo::Geometry::MultiPolygon(_)) { (a.coords().len() % 3) as u8 } else { 0 };
        if container != 0 {
            sh.class(if container == 1 { "delaunay:members_as_Vec<Polygon>" } else { "delaunay:members_as_slice" });
        }
        let run3 = |which: u8| -> Result<Result<Vec<Triangle<f64>>, String>, String> {
            call(|| match (&g, which) {
                (geo::Geometry::Polygon(p), 0) => TriangulateDelaunay::constrained_triangulation(p, cfg()).map_err(|e| format!("{e:?}")),
                (geo::Geometry::Polygon(p), 1) => TriangulateDelaunay::constrained_outer_triangulation(p, cfg()).map_err(|e| format!("{e:?}")),
                (geo::Geometry::Polygon(p), _) => TriangulateDelaunay::unconstrained_triangulation(p).map_err(|e| format!("{e:?}")),
                // the same members as a Vec<Polygon> / a slice of polygons (their own implementations of the requirement trait)
                (geo::Geometry::MultiPolygon(p), 0) if container == 1 => TriangulateDelaunay::constrained_triangulation(&p.0, cfg()).map_err(|e| format!("{e:?}")),
                (geo::Geometry::MultiPolygon(p), 1) if container == 1 => TriangulateDelaunay::constrained_outer_triangulation(&p.0, cfg()).map_err(|e| format!("{e:?}")),
                (geo::Geometry::MultiPolygon(p), _) if container == 1 => TriangulateDelaunay::unconstrained_triangulation(&p.0).map_err(|e| format!("{e:?}")),
                (geo::Geometry::MultiPolygon(p), 0) if container == 2 => { let s: &[Polygon<f64>] = &p.0[..]; TriangulateDelaunay::constrained_triangulation(&s, cfg()).map_err(|e| format!("{e:?}")) }
                (geo::Geometry::MultiPolygon(p), 1) if container == 2 => { let s: &[Polygon<f64>] = &p.0[..]; TriangulateDelaunay::constrained_outer_triangulation(&s, cfg()).map_err(|e| format!("{e:?}")) }
                (geo::Geometry::MultiPolygon(p), _) if container == 2 => { let s: &[Polygon<f64>] = &p.0[..]; TriangulateDelaunay::unconstrained_triangulation(&s).map_err(|e| format!("{e:?}")) }
                (geo::Geometry::MultiPolygon(p), 0) => TriangulateDelaunay::constrained_triangulation(p, cfg()).map_err(|e| format!("{e:?}")),
                (geo::Geometry::MultiPolygon(p), 1) => TriangulateDelaunay::constrained_outer_triangulation(p, cfg()).map_err(|e| format!("{e:?}")),
                (geo::Geometry::MultiPolygon(p), _) => TriangulateDelaunay::unconstrained_triangulation(p).map_err(|e| format!("{e:?}")),
                _ => unreachable!(),
            })
        };
        let hull2 = hull_area2(&a.coords());
        let hull_model = Model::Empty;
        for (which, name) in [(0u8, "constrained_delaunay"), (1, "constrained_outer_delaunay"), (2, "unconstrained_delaunay")] {
            match run3(which) {
                Ok(Ok(ts)) => {
                    let pieces = to_lattice_tris(&ts, lat, &verts);
                    if which == 0 {
                        judge_triangles(sh, name, a, lat, &model, area2, &pieces, true, verbose);
                        // stitching the constrained triangulation back together
                        stitch_check(sh, a, lat, &ts, &model, area2, &verts, verbose);
                    } else {
                        judge_triangles(sh, name, a, lat, &hull_model, hull2, &pieces, false, verbose);
                    }
                }
                Ok(Err(e)) => {
                    sh.eval(1);
                    sh.violation(&format!("{name}.error|{}|-", a.kind()), detail(&format!("{name}.error"), a, lat, "Ok(triangles) for a valid polygon".into(), e, json!({})));
                }
                Err(p) => sh.violation(&format!("{name}.panic|{}|-", a.kind()), detail(&format!("{name}.panic"), a, lat, "no panic".into(), p, json!({"at": last_panic_loc()}))),
            }
        }
    } else {
        sh.class("delaunay:skipped_subunit_lattice(snap_radius)");
    }
    // ---------------- monotone subdivision
    let mono = call(|| match &g {
        geo::Geometry::Polygon(p) => MonotonicPolygons::from(p.clone()),
        geo::Geometry::MultiPolygon(p) => MonotonicPolygons::from(p.clone()),
        _ => unreachable!(),
    });
    match mono {
        Ok(mp) => {
            let pieces: Vec<Polygon<f64>> = mp.subdivisions().iter().map(|m| m.clone().into_polygon()).collect();
            // the documented shape of a piece (MonoPoly): both chains strictly increasing in the lexicographic order,
            // with the same first and the same last coordinate; the accessors, the consuming forms and the stored
            // bounds say the same as the polygon form
            {
                use geo::BoundingRect;
                let lex = |a: &Coord<f64>, b: &Coord<f64>| (a.x, a.y) < (b.x, b.y);
                let owned = mp.clone().into_subdivisions();
                sh.eval(1);
                if owned.len() != pieces.len() {
                    sh.violation(&format!("monotone.piece_shape|{}|-", a.kind()), detail("monotone.piece_shape", a, lat, format!("{} pieces", pieces.len()), format!("into_subdivisions(): {} pieces", owned.len()), json!({})));
                }
                for (i, (m, o)) in mp.subdivisions().iter().zip(owned.into_iter()).enumerate() {
                    sh.eval(1);
                    let (top, bot) = (m.top().clone(), m.bot().clone());
                    let mut bad: Option<String> = None;
                    if top.0.len() < 2 || bot.0.len() < 2 || top.0.first() != bot.0.first() || top.0.last() != bot.0.last() {
                        bad = Some("chains do not share their end points".into());
                    } else if !top.0.windows(2).all(|w| lex(&w[0], &w[1])) || !bot.0.windows(2).all(|w| lex(&w[0], &w[1])) {
                        bad = Some("a chain is not strictly increasing".into());
                    } else if o.clone().into_ls_pair() != (top.clone(), bot.clone()) {
                        bad = Some("into_ls_pair() differs from (top(), bot())".into());
                    } else if Some(m.bounding_rect()) != pieces[i].bounding_rect() {
                        bad = Some(format!("bounding_rect() {:?} differs from that of the polygon form {:?}", m.bounding_rect(), pieces[i].bounding_rect()));
                    } else if o.into_polygon() != pieces[i] {
                        bad = Some("the owned piece differs from the borrowed one".into());
                    }
                    if let Some(why) = bad {
                        sh.violation(&format!("monotone.piece_shape|{}|-", a.kind()), detail("monotone.piece_shape", a, lat, "a monotone piece: two strictly increasing chains between the same end points".into(), format!("piece {i}: {why}: top {:?} bot {:?}", top.0, bot.0), json!({})));
                    }
                }
            }
            // pieces as lattice polygons
            let mut ipieces: Vec<Vec<IP>> = vec![];
            let mut foreign = None;
            for pc in &pieces {
                let mut ring = vec![];
                for c in pc.exterior().0.iter() {
                    match verts.get(&(c.x.to_bits(), c.y.to_bits())) {
                        Some(&p) => ring.push(p),
                        None => foreign = Some(format!("{:?}", c)),
                    }
                }
                ipieces.push(ring);
            }
            if foreign.is_some() {
                sh.inconclusive("monotone piece with a non-vertex coordinate (not judged exactly)");
            } else {
                sh.eval(1);
                let sum: i128 = ipieces.iter().map(|r| ring_area2(r).abs()).sum();
                // (the touching-rings defects of the builder were repaired in /repo: no known class any more)
                let tcls = "-";
                if sum != area2 {
                    sh.violation(&format!("monotone.area_sum|{}|{tcls}", a.kind()), detail("monotone.area_sum", a, lat, area2.to_string(), sum.to_string(), json!({"pieces": format!("{:?}", ipieces)})));
                }
                // inside the polygon and pairwise disjoint interiors, by the arrangement oracle
                let pms: Vec<Model> = ipieces.iter().map(|r| Model::Ars(vec![vec![r.iter().map(|p| pi(p.0, p.1)).collect()]])).collect();
                for (i, pm) in pms.iter().enumerate() {
                    if ring_area2(&ipieces[i]) == 0 {
                        continue;
                    }
                    sh.eval(1);
                    match guard(|| model::relate(&model, pm)) {
                        Ok(rel) => {
                            if rel.m[2][0] >= 0 || rel.m[2][1] >= 0 {
                                sh.violation(&format!("monotone.inside_polygon|{}|{tcls}", a.kind()), detail("monotone.inside_polygon", a, lat, "piece within the polygon".into(), format!("{:?} matrix {}", ipieces[i], model::mstr(&rel.m)), json!({})));
                            }
                        }
                        Err(_) => sh.inconclusive("oracle:relate(piece)"),
                    }
                    for j in i + 1..pms.len() {
                        if ring_area2(&ipieces[j]) == 0 {
                            continue;
                        }
                        sh.eval(1);
                        match guard(|| model::relate(pm, &pms[j])) {
                            Ok(rel) => {
                                if rel.m[0][0] >= 0 {
                                    sh.violation(&format!("monotone.disjoint_interiors|{}|{tcls}", a.kind()), detail("monotone.disjoint_interiors", a, lat, "disjoint interiors".into(), format!("{:?} / {:?}", ipieces[i], ipieces[j]), json!({})));
                                }
                            }
                            Err(_) => sh.inconclusive("oracle:relate(piece,piece)"),
                        }
                    }
                }
            }
            sh.class_n("monotone:pieces", pieces.len() as u64);
            // a coordinate intersects the subdivision exactly when it intersects the polygon:
            // every lattice and half-lattice coordinate of the envelope ± 1 (exact on the doubled lattice)
            let cs = a.coords();
            if !cs.is_empty() && lat.sh > -1000 {
                let (x0, x1) = (cs.iter().map(|c| c.0).min().unwrap(), cs.iter().map(|c| c.0).max().unwrap());
                let (y0, y1) = (cs.iter().map(|c| c.1).min().unwrap(), cs.iter().map(|c| c.1).max().unwrap());
                let half = crate::q::pow2(lat.sh - 1);
                'grid: for hx in (2 * x0 - 2)..=(2 * x1 + 2) {
                    for hy in (2 * y0 - 2)..=(2 * y1 + 2) {
                        let q = (Q::new(hx as i128, 2), Q::new(hy as i128, 2));
                        let c = if lat.shear != 0 {
                            let l = lat.shear;
                            Coord { x: ((l + 1) * hx + l * hy) as f64 * 0.5, y: (l * hx + (l - 1) * hy) as f64 * 0.5 }
                        } else {
                            Coord { x: (2 * lat.ox + hx) as f64 * half, y: (2 * lat.oy + hy) as f64 * half }
                        };
                        let exp = model.loc(q) != Loc::E;
                        sh.eval(1);
                        match call(|| mp.intersects(&c)) {
                            Ok(got) => {
                                if got != exp {
                                    let tcls = "-";
                                    sh.violation(&format!("monotone.intersects_coord|{}|{tcls}", a.kind()), detail("monotone.intersects_coord", a, lat, exp.to_string(), got.to_string(), json!({"coord": format!("{:?}", c), "half_lattice": [hx, hy]})));
                                    break 'grid;
                                }
                            }
                            Err(p) => {
                                sh.violation(&format!("monotone.intersects_coord.panic|{}|-", a.kind()), detail("monotone.intersects_coord.panic", a, lat, exp.to_string(), p, json!({"coord": format!("{:?}", c)})));
                                break 'grid;
                            }
                        }
                    }
                }
            }
        }
        Err(p) => {
            // the panics of the builder on touching rings were repaired in /repo (see known_findings.json `fixed`):
            // any panic is an unknown violation again; the message kind is kept as a coverage class only
            let loc = last_panic_loc();
            let cls = "-";
            sh.class(&format!("monotone_panic:{}:{}", if loc.contains("algorithm/monotone/") { "in_monotone" } else { "elsewhere" }, if touching { "rings_touch" } else { "rings_do_not_touch" }));
            sh.violation(&format!("monotone.panic|{}|{cls}", a.kind()), detail("monotone.panic", a, lat, "no panic".into(), p, json!({"at": loc})))
        }
    }
    if lat.shear != 0 {
        sh.class("lattice:sheared");
    }
    sh.class(&format!("input:{}", a.kind()));
    if touching {
        sh.class("input:rings_touch");
    }
    if polys_of(a).iter().any(|p| p.len() > 1) {
        sh.class("input:has_holes");
    }
    let has_vertical = polys_of(a).iter().flatten().any(|r| r.windows(2).any(|w| w[0].0 == w[1].0));
    if has_vertical {
        sh.class("input:vertical_edge");
    }
    let mut h = Fnv::new();
    a.digest(&mut h);
    if a.n_segments() >= 4 {
        sh.nontrivial(h.0);
    }
    sh.sample(|| json!({"polygon": format!("{:?}", g), "area2_lattice": area2 as i64}));
}

fn stitch_check(sh: &mut Shard, a: &IG, lat: &Lat, ts: &[Triangle<f64>], model: &Model, area2: i128, verts: &HashMap<(u64, u64), IP>, verbose: bool) {
    sh.eval(1);
    match call(|| ts.to_vec().stitch_triangulation()) {
        Ok(Ok(mp)) => {
            let mp: MultiPolygon<f64> = mp;
            let mut sum: i128 = 0;
            let mut members: Vec<Vec<Vec<P>>> = vec![];
            for p in &mp.0 {
                let mut rings = vec![];
                for (k, ring) in std::iter::once(p.exterior()).chain(p.interiors().iter()).enumerate() {
                    let mut ir: Vec<IP> = vec![];
                    for c in ring.0.iter() {
                        match verts.get(&(c.x.to_bits(), c.y.to_bits())) {
                            Some(&q) => ir.push(q),
                            None => {
                                sh.violation(&format!("stitch.vertex_is_polygon_vertex|{}|-", a.kind()), detail("stitch.vertex_is_polygon_vertex", a, lat, "input vertices only".into(), format!("{:?}", c), json!({})));
                                return;
                            }
                        }
                    }
                    let ar = ring_area2(&ir).abs();
                    sum += if k == 0 { ar } else { -ar };
                    rings.push(ir.iter().map(|p| pi(p.0, p.1)).collect::<Vec<P>>());
                }
                members.push(rings);
            }
            if verbose {
                println!("stitch: {} members, area2 {} expected {}", mp.0.len(), sum, area2);
            }
            if sum != area2 {
                sh.violation(&format!("stitch.area|{}|{}", a.kind(), "-"), detail("stitch.area", a, lat, area2.to_string(), sum.to_string(), json!({"stitched": format!("{:?}", mp)})));
                return;
            }
            // same region: locations agree on every lattice and half-lattice point of the envelope
            let sm = Model::Ars(members);
            let cs = a.coords();
            let (x0, x1) = (cs.iter().map(|c| c.0).min().unwrap(), cs.iter().map(|c| c.0).max().unwrap());
            let (y0, y1) = (cs.iter().map(|c| c.1).min().unwrap(), cs.iter().map(|c| c.1).max().unwrap());
            sh.eval(1);
            for hx in (2 * x0)..=(2 * x1) {
                for hy in (2 * y0)..=(2 * y1) {
                    let q = (Q::new(hx as i128, 2), Q::new(hy as i128, 2));
                    let (l1, l2) = (model.loc(q), sm.loc(q));
                    if (l1 == Loc::E) != (l2 == Loc::E) || (l1 == Loc::I) != (l2 == Loc::I) {
                        sh.violation(&format!("stitch.same_region|{}|{}", a.kind(), "-"), detail("stitch.same_region", a, lat, format!("{:?}", l1), format!("{:?}", l2), json!({"half_lattice": [hx, hy], "stitched": format!("{:?}", mp)})));
                        return;
                    }
                }
            }
            sh.class_n("stitch:members", mp.0.len() as u64);
        }
        Ok(Err(e)) => sh.violation(&format!("stitch.error|{}|-", a.kind()), detail("stitch.error", a, lat, "Ok".into(), format!("{e:?}"), json!({}))),
        Err(p) => sh.violation(&format!("stitch.panic|{}|-", a.kind()), detail("stitch.panic", a, lat, "no panic".into(), p, json!({"at": last_panic_loc()}))),
    }
}

/// A comb: k arms joined by a spine, the k-1 notches between them ending in apexes of different depths. Several
/// notch apexes are open at the same time during a sweep (each waits, as a pending "help", on the edge below it), which
/// random rings of <= 8 vertices never produce. Mirrored (apexes become split vertices), transposed (the sweep runs
/// along the arms or across them), optionally with a small hole in the spine or in an arm.
pub fn gen_comb(r: &mut Rng) -> IG {
    let k = r.range(3, 5);
    let w = r.range(6, 12);
    let top = 4 * (k - 1) + 2;
    // apex of the notch above arm i (x strictly inside), left end of arm i (left of the neighbouring apexes)
    let apex: Vec<i64> = (0..k - 1).map(|_| r.range(2, w - 2)).collect();
    let left: Vec<i64> = (0..k)
        .map(|i| {
            let mut m = w;
            if i > 0 {
                m = m.min(apex[(i - 1) as usize]);
            }
            if i < k - 1 {
                m = m.min(apex[i as usize]);
            }
            r.range(0, m - 1)
        })
        .collect();
    // arm i is [left_i, w] x [4i, 4i+2]; everything is written on the doubled lattice (room for a hole in the spine)
    let mut ring: Vec<IP> = vec![(left[0], 0), (w, 0), (w, top)];
    for i in (0..k).rev() {
        ring.push((left[i as usize], 4 * i + 2));
        ring.push((left[i as usize], 4 * i));
        if i > 0 {
            // apex of the notch below arm i: level with the arm above, in the middle, or level with the arm below
            ring.push((apex[(i - 1) as usize], 4 * i - r.range(0, 2)));
        }
    }
    // the walk ends at (left_0, 0), the first coordinate
    let mut rings: Vec<Vec<IP>> = vec![ring.into_iter().map(|(x, y)| (2 * x, 2 * y)).collect()];
    if r.chance(1, 3) {
        let y = r.range(0, top - 1);
        rings.push(vec![(2 * w - 3, 2 * y + 1), (2 * w - 1, 2 * y + 1), (2 * w - 2, 2 * y + 2), (2 * w - 3, 2 * y + 1)]);
    }
    let (mirror, flip, transpose) = (r.chance(1, 2), r.chance(1, 2), r.chance(1, 2));
    let f = |p: IP| -> IP {
        let (mut x, mut y) = p;
        if mirror {
            x = 2 * w - x;
        }
        if flip {
            y = 2 * top - y;
        }
        if transpose {
            (y, x)
        } else {
            (x, y)
        }
    };
    IG::Polygon(rings.into_iter().map(|rg| rg.into_iter().map(f).collect()).collect())
}

pub fn gen_input(r: &mut Rng) -> (IG, Lat) {
    let g = *r.pick(&[3i64, 4, 4, 5, 6, 8]);
    if r.chance(1, 30) {
        let a = gen_comb(r);
        if a.valid() {
            let offs: [i64; 4] = [0, 0, 1000, -100_000_000];
            return (a, Lat { ox: *r.pick(&offs), oy: *r.pick(&offs), sh: *r.pick(&[0, 0, 1, -2, -10]), shear: 0 });
        }
    }
    let a = loop {
        let k = *r.pick(&["Polygon", "Polygon", "PolygonHoles", "PolygonHoles", "MultiPolygon"]);
        if let Some(x) = gen_kind(r, k, g) {
            if !x.is_empty() {
                break x;
            }
        }
    };
    let offs: [i64; 5] = [0, 0, 1000, -100_000_000, 1 << 30];
    let lat = Lat { ox: *r.pick(&offs), oy: *r.pick(&offs), sh: *r.pick(&[0, 0, 0, 0, 1, 3, 10, -2, -10, -60, 50]), shear: 0 };
    let lat = if r.chance(1, 6) { Lat::random_sheared(r) } else { lat };
    (a, lat)
}

pub fn run(ctx: &Ctx, sh: &mut Shard) {
    for k in ctx.case_indices() {
        if sh.cases >= ctx.budget {
            break;
        }
        ctx.mark_case(k);
        let mut r = Rng::derive(ctx.seed, ctx.shard, k);
        let (a, lat) = gen_input(&mut r);
        if a.n_segments() > 60 {
            continue;
        }
        if let IG::Polygon(rs) = &a {
            if rs[0].len() >= 13 {
                sh.class("input:comb(several notch apexes open at once)");
            }
        }
        check_one(sh, &a, &lat, false);
    }
}

pub fn replay(v: &Value, sh: &mut Shard) {
    let a = IG::from_json(&v["a"]).expect("a");
    let lat = Lat::from_json(&v["lat"]);
    println!("A = {:?}", a.to_geo(&lat));
    check_one(sh, &a, &lat, true);
}
