//! SplitMix64 — deterministic, seedable, no external crate.
#[derive(Clone, Debug)]
pub struct Rng(pub u64);
impl Rng {
    pub fn new(seed: u64) -> Rng {
        let mut r = Rng(seed ^ 0xD1B54A32D192ED03);
        r.next();
        r
    }
    /// independent stream derived from (seed, a, b)
    pub fn derive(seed: u64, a: u64, b: u64) -> Rng {
        let mut r = Rng::new(seed);
        let x = r.next() ^ a.wrapping_mul(0x9E3779B97F4A7C15);
        let mut r2 = Rng::new(x);
        let y = r2.next() ^ b.wrapping_mul(0xC2B2AE3D27D4EB4F);
        Rng::new(y)
    }
    #[inline]
    pub fn next(&mut self) -> u64 {
        self.0 = self.0.wrapping_add(0x9E3779B97F4A7C15);
        let mut z = self.0;
        z = (z ^ (z >> 30)).wrapping_mul(0xBF58476D1CE4E5B9);
        z = (z ^ (z >> 27)).wrapping_mul(0x94D049BB133111EB);
        z ^ (z >> 31)
    }
    #[inline]
    pub fn below(&mut self, n: u64) -> u64 {
        if n == 0 {
            0
        } else {
            self.next() % n
        }
    }
    #[inline]
    pub fn range(&mut self, lo: i64, hi: i64) -> i64 {
        // inclusive
        lo + self.below((hi - lo + 1) as u64) as i64
    }
    #[inline]
    pub fn chance(&mut self, num: u64, den: u64) -> bool {
        self.below(den) < num
    }
    #[inline]
    pub fn f01(&mut self) -> f64 {
        (self.next() >> 11) as f64 / (1u64 << 53) as f64
    }
    pub fn pick<'a, T>(&mut self, v: &'a [T]) -> &'a T {
        &v[self.below(v.len() as u64) as usize]
    }
    pub fn shuffle<T>(&mut self, v: &mut [T]) {
        for i in (1..v.len()).rev() {
            let j = self.below(i as u64 + 1) as usize;
            v.swap(i, j);
        }
    }
}

pub fn fnv(bytes: &[u8]) -> u64 {
    let mut h: u64 = 0xcbf29ce484222325;
    for &b in bytes {
        h ^= b as u64;
        h = h.wrapping_mul(0x100000001b3);
    }
    h
}
#[derive(Clone)]
pub struct Fnv(pub u64);
impl Fnv {
    pub fn new() -> Fnv {
        Fnv(0xcbf29ce484222325)
    }
    #[inline]
    pub fn u64(&mut self, x: u64) {
        for b in x.to_le_bytes() {
            self.0 ^= b as u64;
            self.0 = self.0.wrapping_mul(0x100000001b3);
        }
    }
    pub fn i64(&mut self, x: i64) {
        self.u64(x as u64)
    }
    pub fn f64(&mut self, x: f64) {
        self.u64(x.to_bits())
    }
    pub fn str(&mut self, s: &str) {
        for &b in s.as_bytes() {
            self.0 ^= b as u64;
            self.0 = self.0.wrapping_mul(0x100000001b3);
        }
        self.u64(0xff);
    }
}
