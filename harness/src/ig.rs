//! Integer-lattice geometry descriptions (`IG`), the lattice map to f64 (`Lat`), conversion to
//! geo types, JSON (for replays) and the *exact* validity predicates that define each property's
//! input domain (independent of geo's own `is_valid`, which is itself under test in C14).
use crate::model::{loc_rings, Loc, Model};
use crate::q::*;
use geo::{Coord, Geometry, GeometryCollection, Line, LineString, MultiLineString, MultiPoint, MultiPolygon, Point, Polygon, Rect, Triangle};
use serde_json::{json, Value};

pub type IP = (i64, i64);

#[derive(Clone, Debug, PartialEq, Eq, Hash)]
pub enum IG {
    Point(IP),
    Line(IP, IP),
    LineString(Vec<IP>),
    /// rings, first is the exterior; stored exactly as they are handed to geo (closed explicitly)
    Polygon(Vec<Vec<IP>>),
    MultiPoint(Vec<IP>),
    MultiLineString(Vec<Vec<IP>>),
    MultiPolygon(Vec<Vec<Vec<IP>>>),
    Rect(IP, IP),
    Triangle(IP, IP, IP),
    Collection(Vec<IG>),
}

/// x = (ox + i) * 2^sh ; exact in f64 as long as |ox + i| < 2^53.
/// `shear` = L > 0 (only from `Lat::random_sheared`, for properties that are invariant under linear bijections):
/// the lattice point is first mapped by the unimodular map (i,j) -> ((L+1)i + Lj, Li + (L-1)j) (determinant -1,
/// all edges become nearly parallel and ~L·g long); ox, oy, sh are 0 then and `inv` / `scale` must not be used.
#[derive(Clone, Copy, Debug, PartialEq)]
pub struct Lat {
    pub ox: i64,
    pub oy: i64,
    pub sh: i32,
    pub shear: i64,
}
impl Lat {
    pub const ID: Lat = Lat { ox: 0, oy: 0, sh: 0, shear: 0 };
    pub fn random_sheared(r: &mut crate::rng::Rng) -> Lat {
        Lat { ox: 0, oy: 0, sh: 0, shear: *r.pick(&[1i64 << 27, 100_000_000, 1 << 30, 3 << 28, (1 << 29) + 12345]) }
    }
    #[inline]
    pub fn scale(&self) -> f64 {
        crate::q::pow2(self.sh)
    }
    #[inline]
    pub fn c(&self, p: IP) -> Coord<f64> {
        if self.shear != 0 {
            let l = self.shear;
            return Coord { x: ((l + 1) * p.0 + l * p.1) as f64, y: (l * p.0 + (l - 1) * p.1) as f64 };
        }
        let s = self.scale();
        Coord { x: (self.ox + p.0) as f64 * s, y: (self.oy + p.1) as f64 * s }
    }
    /// exact preimage of an f64 result coordinate (None if it does not fit Q comfortably)
    pub fn inv(&self, c: Coord<f64>) -> Option<P> {
        if self.shear != 0 {
            return None;
        }
        let s = crate::q::pow2(-self.sh);
        // dividing by a power of two is exact unless it underflows/overflows; lattice values never do
        let (x, y) = (c.x * s, c.y * s);
        if x * self.scale() != c.x || y * self.scale() != c.y {
            return None;
        }
        let qx = Q::from_f64(x)?;
        let qy = Q::from_f64(y)?;
        Some((qx.sub(Q::int(self.ox as i128)), qy.sub(Q::int(self.oy as i128))))
    }
    pub fn random(r: &mut crate::rng::Rng) -> Lat {
        let offs: [i64; 9] = [0, 0, 0, 1000, -1000, 100_000_000, -100_000_000, 1 << 40, -(1 << 40)];
        let ox = *r.pick(&offs);
        let oy = *r.pick(&offs);
        let sh = if r.chance(1, 2) { 0 } else { r.range(-30, 30) as i32 };
        // one lattice in ten at an extreme scale, without offset (whole extent around 1e-23..1e-11 or 1e13..1e25): nothing
        // absolute - an epsilon, a unit snap, a "numerically zero" guard - may enter a result
        if r.chance(1, 10) {
            return Lat { ox: 0, oy: 0, sh: if r.chance(1, 2) { r.range(-80, -40) } else { r.range(40, 80) } as i32, shear: 0 };
        }
        Lat { ox, oy, sh, shear: 0 }
    }
    pub fn json(&self) -> Value {
        if self.shear != 0 {
            return json!({"ox": self.ox, "oy": self.oy, "sh": self.sh, "shear": self.shear});
        }
        json!({"ox": self.ox, "oy": self.oy, "sh": self.sh})
    }
    pub fn from_json(v: &Value) -> Lat {
        Lat { ox: v["ox"].as_i64().unwrap_or(0), oy: v["oy"].as_i64().unwrap_or(0), sh: v["sh"].as_i64().unwrap_or(0) as i32, shear: v["shear"].as_i64().unwrap_or(0) }
    }
}

fn ls(l: &Lat, v: &[IP]) -> LineString<f64> {
    LineString::new(v.iter().map(|&p| l.c(p)).collect())
}
fn poly(l: &Lat, rings: &[Vec<IP>]) -> Polygon<f64> {
    if rings.is_empty() {
        return Polygon::new(LineString::new(vec![]), vec![]);
    }
    Polygon::new(ls(l, &rings[0]), rings[1..].iter().map(|r| ls(l, r)).collect())
}

impl IG {
    pub fn kind(&self) -> &'static str {
        match self {
            IG::Point(_) => "Point",
            IG::Line(..) => "Line",
            IG::LineString(_) => "LineString",
            IG::Polygon(_) => "Polygon",
            IG::MultiPoint(_) => "MultiPoint",
            IG::MultiLineString(_) => "MultiLineString",
            IG::MultiPolygon(_) => "MultiPolygon",
            IG::Rect(..) => "Rect",
            IG::Triangle(..) => "Triangle",
            IG::Collection(_) => "GeometryCollection",
        }
    }
    pub fn to_geo(&self, l: &Lat) -> Geometry<f64> {
        match self {
            IG::Point(p) => Geometry::Point(Point(l.c(*p))),
            IG::Line(a, b) => Geometry::Line(Line::new(l.c(*a), l.c(*b))),
            IG::LineString(v) => Geometry::LineString(ls(l, v)),
            IG::Polygon(r) => Geometry::Polygon(poly(l, r)),
            IG::MultiPoint(v) => Geometry::MultiPoint(MultiPoint::new(v.iter().map(|&p| Point(l.c(p))).collect())),
            IG::MultiLineString(v) => Geometry::MultiLineString(MultiLineString::new(v.iter().map(|x| ls(l, x)).collect())),
            IG::MultiPolygon(v) => Geometry::MultiPolygon(MultiPolygon::new(v.iter().map(|x| poly(l, x)).collect())),
            IG::Rect(a, b) if l.shear != 0 => Geometry::Polygon(poly(l, &[IG::rect_ring(*a, *b)])),
            IG::Rect(a, b) => Geometry::Rect(Rect::new(l.c(*a), l.c(*b))),
            // the tuple constructor keeps the vertices as written (Triangle::new would re-order a clockwise triple): both
            // windings reach the algorithms, as they do through Triangle::from([..]), the public fields and earcut output
            IG::Triangle(a, b, c) => Geometry::Triangle(Triangle(l.c(*a), l.c(*b), l.c(*c))),
            IG::Collection(v) => Geometry::GeometryCollection(GeometryCollection::new_from(v.iter().map(|g| g.to_geo(l)).collect())),
        }
    }
    /// topological dimension; -1 for empty
    pub fn dim(&self) -> i32 {
        match self {
            IG::Point(_) => 0,
            IG::MultiPoint(v) => {
                if v.is_empty() {
                    -1
                } else {
                    0
                }
            }
            IG::Line(..) => 1,
            IG::LineString(v) => {
                if v.is_empty() {
                    -1
                } else {
                    1
                }
            }
            IG::MultiLineString(v) => {
                if v.iter().all(|x| x.is_empty()) {
                    -1
                } else {
                    1
                }
            }
            IG::Polygon(r) => {
                if r.is_empty() || r[0].is_empty() {
                    -1
                } else {
                    2
                }
            }
            IG::MultiPolygon(v) => {
                if v.iter().all(|r| r.is_empty() || r[0].is_empty()) {
                    -1
                } else {
                    2
                }
            }
            IG::Rect(..) | IG::Triangle(..) => 2,
            IG::Collection(v) => v.iter().map(|g| g.dim()).max().unwrap_or(-1),
        }
    }
    pub fn is_empty(&self) -> bool {
        self.dim() < 0
    }
    /// every coordinate in geo's traversal order
    pub fn coords(&self) -> Vec<IP> {
        let mut out = vec![];
        self.push_coords(&mut out);
        out
    }
    fn push_coords(&self, out: &mut Vec<IP>) {
        match self {
            IG::Point(p) => out.push(*p),
            IG::Line(a, b) => {
                out.push(*a);
                out.push(*b)
            }
            IG::LineString(v) | IG::MultiPoint(v) => out.extend(v.iter().cloned()),
            IG::Polygon(r) | IG::MultiLineString(r) => r.iter().for_each(|x| out.extend(x.iter().cloned())),
            IG::MultiPolygon(v) => v.iter().for_each(|r| r.iter().for_each(|x| out.extend(x.iter().cloned()))),
            IG::Rect(a, b) => {
                let (x0, x1, y0, y1) = (a.0.min(b.0), a.0.max(b.0), a.1.min(b.1), a.1.max(b.1));
                out.extend([(x0, y0), (x1, y0), (x1, y1), (x0, y1)]);
            }
            IG::Triangle(a, b, c) => out.extend([*a, *b, *c]),
            IG::Collection(v) => v.iter().for_each(|g| g.push_coords(out)),
        }
    }
    /// rect as a closed ccw ring
    pub fn rect_ring(a: IP, b: IP) -> Vec<IP> {
        let (x0, x1, y0, y1) = (a.0.min(b.0), a.0.max(b.0), a.1.min(b.1), a.1.max(b.1));
        vec![(x0, y0), (x1, y0), (x1, y1), (x0, y1), (x0, y0)]
    }
    /// flatten to the exact point-set model. Collections must be of a single dimension (checked by `valid`).
    pub fn to_model(&self) -> Model {
        // a coordinate written twice in a row adds no point: the model is built from the sequence without such
        // repetitions (unless nothing but one coordinate would be left)
        fn pp(v: &[IP]) -> Vec<P> {
            let mut w: Vec<IP> = v.to_vec();
            w.dedup();
            if w.len() < 2 {
                w = v.to_vec();
            }
            w.iter().map(|&p| pi(p.0, p.1)).collect()
        }
        match self {
            IG::Point(p) => Model::Pts(vec![pi(p.0, p.1)]),
            IG::MultiPoint(v) => {
                if v.is_empty() {
                    Model::Empty
                } else {
                    Model::Pts(pp(v))
                }
            }
            IG::Line(a, b) => Model::Lns(vec![pp(&[*a, *b])]),
            IG::LineString(v) => {
                if v.is_empty() {
                    Model::Empty
                } else {
                    Model::Lns(vec![pp(v)])
                }
            }
            IG::MultiLineString(v) => {
                let m: Vec<Vec<P>> = v.iter().filter(|x| !x.is_empty()).map(|x| pp(x)).collect();
                if m.is_empty() {
                    Model::Empty
                } else {
                    Model::Lns(m)
                }
            }
            IG::Polygon(r) => {
                if r.is_empty() || r[0].is_empty() {
                    Model::Empty
                } else {
                    Model::Ars(vec![r.iter().map(|x| pp(x)).collect()])
                }
            }
            IG::MultiPolygon(v) => {
                let m: Vec<Vec<Vec<P>>> = v.iter().filter(|r| !r.is_empty() && !r[0].is_empty()).map(|r| r.iter().map(|x| pp(x)).collect()).collect();
                if m.is_empty() {
                    Model::Empty
                } else {
                    Model::Ars(m)
                }
            }
            IG::Rect(a, b) => Model::Ars(vec![vec![pp(&IG::rect_ring(*a, *b))]]),
            IG::Triangle(a, b, c) => Model::Ars(vec![vec![pp(&[*a, *b, *c, *a])]]),
            IG::Collection(v) => {
                let mut acc = Model::Empty;
                for g in v {
                    acc = match (acc, g.to_model()) {
                        (Model::Empty, m) => m,
                        (a, Model::Empty) => a,
                        (Model::Pts(mut a), Model::Pts(b)) => {
                            a.extend(b);
                            Model::Pts(a)
                        }
                        (Model::Lns(mut a), Model::Lns(b)) => {
                            a.extend(b);
                            Model::Lns(a)
                        }
                        (Model::Ars(mut a), Model::Ars(b)) => {
                            a.extend(b);
                            Model::Ars(a)
                        }
                        _ => panic!("mixed-dimension collection has no single model"),
                    };
                }
                acc
            }
        }
    }
    pub fn json(&self) -> Value {
        fn pv(v: &[IP]) -> Value {
            Value::Array(v.iter().map(|p| json!([p.0, p.1])).collect())
        }
        fn rv(v: &[Vec<IP>]) -> Value {
            Value::Array(v.iter().map(|x| pv(x)).collect())
        }
        match self {
            IG::Point(p) => json!({"t": "Point", "c": [p.0, p.1]}),
            IG::Line(a, b) => json!({"t": "Line", "c": pv(&[*a, *b])}),
            IG::LineString(v) => json!({"t": "LineString", "c": pv(v)}),
            IG::Polygon(r) => json!({"t": "Polygon", "c": rv(r)}),
            IG::MultiPoint(v) => json!({"t": "MultiPoint", "c": pv(v)}),
            IG::MultiLineString(v) => json!({"t": "MultiLineString", "c": rv(v)}),
            IG::MultiPolygon(v) => json!({"t": "MultiPolygon", "c": Value::Array(v.iter().map(|r| rv(r)).collect())}),
            IG::Rect(a, b) => json!({"t": "Rect", "c": pv(&[*a, *b])}),
            IG::Triangle(a, b, c) => json!({"t": "Triangle", "c": pv(&[*a, *b, *c])}),
            IG::Collection(v) => json!({"t": "GeometryCollection", "c": Value::Array(v.iter().map(|g| g.json()).collect())}),
        }
    }
    pub fn from_json(v: &Value) -> Option<IG> {
        fn ip(v: &Value) -> Option<IP> {
            Some((v.get(0)?.as_i64()?, v.get(1)?.as_i64()?))
        }
        fn pv(v: &Value) -> Option<Vec<IP>> {
            v.as_array()?.iter().map(ip).collect()
        }
        fn rv(v: &Value) -> Option<Vec<Vec<IP>>> {
            v.as_array()?.iter().map(pv).collect()
        }
        let c = &v["c"];
        Some(match v["t"].as_str()? {
            "Point" => IG::Point(ip(c)?),
            "Line" => {
                let p = pv(c)?;
                IG::Line(p[0], p[1])
            }
            "LineString" => IG::LineString(pv(c)?),
            "Polygon" => IG::Polygon(rv(c)?),
            "MultiPoint" => IG::MultiPoint(pv(c)?),
            "MultiLineString" => IG::MultiLineString(rv(c)?),
            "MultiPolygon" => IG::MultiPolygon(c.as_array()?.iter().map(rv).collect::<Option<Vec<_>>>()?),
            "Rect" => {
                let p = pv(c)?;
                IG::Rect(p[0], p[1])
            }
            "Triangle" => {
                let p = pv(c)?;
                IG::Triangle(p[0], p[1], p[2])
            }
            "GeometryCollection" => IG::Collection(c.as_array()?.iter().map(IG::from_json).collect::<Option<Vec<_>>>()?),
            _ => return None,
        })
    }
    pub fn digest(&self, h: &mut crate::rng::Fnv) {
        h.str(self.kind());
        match self {
            IG::Collection(v) => {
                for g in v {
                    g.digest(h)
                }
                h.u64(0xC0);
            }
            IG::Polygon(r) | IG::MultiLineString(r) => {
                for x in r {
                    for p in x {
                        h.i64(p.0);
                        h.i64(p.1);
                    }
                    h.u64(0xA0);
                }
            }
            IG::MultiPolygon(v) => {
                for r in v {
                    for x in r {
                        for p in x {
                            h.i64(p.0);
                            h.i64(p.1);
                        }
                        h.u64(0xA0);
                    }
                    h.u64(0xB0);
                }
            }
            _ => {
                for p in self.coords() {
                    h.i64(p.0);
                    h.i64(p.1);
                }
            }
        }
    }
    pub fn translate(&self, dx: i64, dy: i64) -> IG {
        self.map(&|p| (p.0 + dx, p.1 + dy))
    }
    pub fn map(&self, f: &dyn Fn(IP) -> IP) -> IG {
        let mv = |v: &Vec<IP>| v.iter().map(|&p| f(p)).collect::<Vec<_>>();
        match self {
            IG::Point(p) => IG::Point(f(*p)),
            IG::Line(a, b) => IG::Line(f(*a), f(*b)),
            IG::LineString(v) => IG::LineString(mv(v)),
            IG::Polygon(r) => IG::Polygon(r.iter().map(mv).collect()),
            IG::MultiPoint(v) => IG::MultiPoint(mv(v)),
            IG::MultiLineString(r) => IG::MultiLineString(r.iter().map(mv).collect()),
            IG::MultiPolygon(v) => IG::MultiPolygon(v.iter().map(|r| r.iter().map(mv).collect()).collect()),
            IG::Rect(a, b) => IG::Rect(f(*a), f(*b)),
            IG::Triangle(a, b, c) => IG::Triangle(f(*a), f(*b), f(*c)),
            IG::Collection(v) => IG::Collection(v.iter().map(|g| g.map(f)).collect()),
        }
    }
    pub fn n_segments(&self) -> usize {
        match self {
            IG::Point(_) | IG::MultiPoint(_) => 0,
            IG::Line(..) => 1,
            IG::LineString(v) => v.len().saturating_sub(1),
            IG::Polygon(r) | IG::MultiLineString(r) => r.iter().map(|x| x.len().saturating_sub(1)).sum(),
            IG::MultiPolygon(v) => v.iter().flatten().map(|x| x.len().saturating_sub(1)).sum(),
            IG::Rect(..) => 4,
            IG::Triangle(..) => 3,
            IG::Collection(v) => v.iter().map(|g| g.n_segments()).sum(),
        }
    }
}

// ------------------------------------------------------------------------------------------
// exact validity predicates
// ------------------------------------------------------------------------------------------
pub fn orient_i(a: IP, b: IP, c: IP) -> i128 {
    (b.0 - a.0) as i128 * (c.1 - a.1) as i128 - (b.1 - a.1) as i128 * (c.0 - a.0) as i128
}
fn pq(p: IP) -> P {
    pi(p.0, p.1)
}
/// twice the signed area of a closed ring
pub fn ring_area2(r: &[IP]) -> i128 {
    let mut s = 0i128;
    for w in r.windows(2) {
        s += w[0].0 as i128 * w[1].1 as i128 - w[1].0 as i128 * w[0].1 as i128;
    }
    s
}
/// OGC-simple line string: >= 2 points, no zero-length segment, no self-touch except first==last
pub fn simple_linestring(v: &[IP]) -> bool {
    let n = v.len();
    if n < 2 {
        return false;
    }
    if v.windows(2).any(|w| w[0] == w[1]) {
        return false;
    }
    let closed = n > 2 && v[0] == v[n - 1];
    if n == 3 && closed {
        return false; // a-b-a
    }
    let ns = n - 1;
    for i in 0..ns {
        for j in i + 1..ns {
            let x = seg_x(pq(v[i]), pq(v[i + 1]), pq(v[j]), pq(v[j + 1]));
            let ok = match x {
                SegX::None => true,
                SegX::Overlap(..) => false,
                SegX::Point(p) => (j == i + 1 && p == pq(v[j])) || (closed && i == 0 && j == ns - 1 && p == pq(v[0]) && ns > 2),
            };
            if !ok {
                return false;
            }
        }
    }
    true
}
pub fn simple_ring(r: &[IP]) -> bool {
    r.len() >= 4 && r[0] == r[r.len() - 1] && simple_linestring(r)
}

#[derive(Clone, Copy, Debug, PartialEq, Eq)]
pub enum PolyDefect {
    TooFewPoints,
    NotClosed,
    RingNotSimple(usize),
    HoleOutside(usize),
    RingsOverlap(usize, usize),
    RingsCross(usize, usize),
    HoleInHole(usize, usize),
    InteriorDisconnected,
}
/// touch points and relation of two simple rings: Err(defect) if they overlap along a line
pub fn ring_touch_points(a: &[IP], b: &[IP]) -> Result<Vec<P>, ()> {
    let mut pts = vec![];
    for w in a.windows(2) {
        for z in b.windows(2) {
            match seg_x(pq(w[0]), pq(w[1]), pq(z[0]), pq(z[1])) {
                SegX::None => {}
                SegX::Overlap(..) => return Err(()),
                SegX::Point(p) => {
                    if !pts.contains(&p) {
                        pts.push(p)
                    }
                }
            }
        }
    }
    Ok(pts)
}
/// locations (w.r.t. the region bounded by ring `b` alone) of the pieces of ring `a` split at `cuts`
pub fn piece_locs(a: &[IP], cuts: &[P], b: &[IP]) -> Vec<Loc> {
    let bq: Vec<P> = b.iter().map(|&p| pq(p)).collect();
    let rings = vec![bq];
    let mut out = vec![];
    for w in a.windows(2) {
        let (s0, s1) = (pq(w[0]), pq(w[1]));
        let usex = s0.0 != s1.0;
        let key = |q: P| if usex { q.0 } else { q.1 };
        let mut pts = vec![s0, s1];
        for &c in cuts {
            if on_seg(s0, s1, c) {
                pts.push(c)
            }
        }
        pts.sort_by(|x, y| key(*x).cmp(&key(*y)));
        pts.dedup();
        for z in pts.windows(2) {
            out.push(loc_rings(&rings, mid(z[0], z[1])));
        }
    }
    out
}
/// Exact polygon validity, clause by clause. `require_connected` adds the OGC interior-connectedness
/// condition (conservatively: the ring touch graph must be a forest).
pub fn polygon_defect(rings: &[Vec<IP>], require_connected: bool) -> Option<PolyDefect> {
    if rings.is_empty() {
        return None;
    }
    if rings[0].is_empty() && rings.len() == 1 {
        return None; // empty polygon is valid
    }
    for (i, r) in rings.iter().enumerate() {
        if r.len() < 4 {
            return Some(PolyDefect::TooFewPoints);
        }
        if r[0] != r[r.len() - 1] {
            return Some(PolyDefect::NotClosed);
        }
        if !simple_linestring(r) {
            return Some(PolyDefect::RingNotSimple(i));
        }
    }
    let n = rings.len();
    let mut parent: Vec<usize> = (0..n).collect();
    fn find(p: &mut Vec<usize>, x: usize) -> usize {
        let mut x = x;
        while p[x] != x {
            p[x] = p[p[x]];
            x = p[x];
        }
        x
    }
    let mut cyclic = false;
    for i in 0..n {
        for j in i + 1..n {
            let cuts = match ring_touch_points(&rings[i], &rings[j]) {
                Err(()) => return Some(PolyDefect::RingsOverlap(i, j)),
                Ok(c) => c,
            };
            if i == 0 {
                // hole j must be inside shell
                let l = piece_locs(&rings[j], &cuts, &rings[0]);
                let inside = l.iter().filter(|&&x| x == Loc::I).count();
                if inside == 0 {
                    return Some(PolyDefect::HoleOutside(j));
                }
                if inside != l.len() {
                    return Some(PolyDefect::RingsCross(0, j));
                }
            } else {
                let l1 = piece_locs(&rings[i], &cuts, &rings[j]);
                let l2 = piece_locs(&rings[j], &cuts, &rings[i]);
                let in1 = l1.iter().filter(|&&x| x == Loc::I).count();
                let in2 = l2.iter().filter(|&&x| x == Loc::I).count();
                if (in1 != 0 && in1 != l1.len()) || (in2 != 0 && in2 != l2.len()) {
                    return Some(PolyDefect::RingsCross(i, j));
                }
                if in1 != 0 || in2 != 0 {
                    return Some(PolyDefect::HoleInHole(i, j));
                }
            }
            for _ in &cuts {
                let (a, b) = (find(&mut parent, i), find(&mut parent, j));
                if a == b {
                    cyclic = true;
                } else {
                    parent[a] = b;
                }
            }
        }
    }
    if require_connected && cyclic {
        return Some(PolyDefect::InteriorDisconnected);
    }
    None
}
pub fn valid_polygon(rings: &[Vec<IP>]) -> bool {
    polygon_defect(rings, true).is_none()
}

#[derive(Clone, Copy, Debug, PartialEq, Eq)]
pub enum MultiDefect {
    Member(usize),
    Overlap(usize, usize),
    SharedEdge(usize, usize),
}
/// members each valid, interiors pairwise disjoint, boundaries meeting only at points
pub fn multipolygon_defect(ms: &[Vec<Vec<IP>>], require_connected: bool) -> Option<MultiDefect> {
    for (i, m) in ms.iter().enumerate() {
        if polygon_defect(m, require_connected).is_some() {
            return Some(MultiDefect::Member(i));
        }
    }
    let ne: Vec<usize> = (0..ms.len()).filter(|&i| !ms[i].is_empty() && !ms[i][0].is_empty()).collect();
    for (x, &i) in ne.iter().enumerate() {
        for &j in &ne[x + 1..] {
            // collect cuts over all ring pairs
            let mut cuts: Vec<P> = vec![];
            for ra in &ms[i] {
                for rb in &ms[j] {
                    match ring_touch_points(ra, rb) {
                        Err(()) => return Some(MultiDefect::SharedEdge(i, j)),
                        Ok(c) => {
                            for p in c {
                                if !cuts.contains(&p) {
                                    cuts.push(p)
                                }
                            }
                        }
                    }
                }
            }
            let mi: Vec<Vec<P>> = ms[i].iter().map(|r| r.iter().map(|&p| pq(p)).collect()).collect();
            let mj: Vec<Vec<P>> = ms[j].iter().map(|r| r.iter().map(|&p| pq(p)).collect()).collect();
            let inside = |rings_a: &Vec<Vec<IP>>, b: &Vec<Vec<P>>| -> bool {
                for ra in rings_a {
                    for w in ra.windows(2) {
                        let (s0, s1) = (pq(w[0]), pq(w[1]));
                        let usex = s0.0 != s1.0;
                        let key = |q: P| if usex { q.0 } else { q.1 };
                        let mut pts = vec![s0, s1];
                        for &c in &cuts {
                            if on_seg(s0, s1, c) {
                                pts.push(c)
                            }
                        }
                        pts.sort_by(|x, y| key(*x).cmp(&key(*y)));
                        pts.dedup();
                        for z in pts.windows(2) {
                            if loc_rings(b, mid(z[0], z[1])) == Loc::I {
                                return true;
                            }
                        }
                    }
                }
                false
            };
            if inside(&ms[i], &mj) || inside(&ms[j], &mi) {
                return Some(MultiDefect::Overlap(i, j));
            }
        }
    }
    None
}

/// multi line string: members simple and meeting only at end points of both
pub fn simple_mls(ms: &[Vec<IP>]) -> bool {
    let ne: Vec<&Vec<IP>> = ms.iter().filter(|m| !m.is_empty()).collect();
    if !ne.iter().all(|m| simple_linestring(m)) {
        return false;
    }
    for i in 0..ne.len() {
        for j in i + 1..ne.len() {
            let (a, b) = (ne[i], ne[j]);
            let ends = |m: &Vec<IP>, p: P| p == pq(m[0]) || p == pq(m[m.len() - 1]);
            for w in a.windows(2) {
                for z in b.windows(2) {
                    match seg_x(pq(w[0]), pq(w[1]), pq(z[0]), pq(z[1])) {
                        SegX::None => {}
                        SegX::Overlap(..) => return false,
                        SegX::Point(p) => {
                            if !(ends(a, p) && ends(b, p)) {
                                return false;
                            }
                            // a closed member has no boundary: nothing may touch it
                            if a[0] == a[a.len() - 1] || b[0] == b[b.len() - 1] {
                                return false;
                            }
                        }
                    }
                }
            }
        }
    }
    true
}

impl IG {
    /// Domain of C01/C02/C07/...: valid, OGC-simple linework, single-dimension collections with
    /// pairwise disjoint members.
    pub fn valid(&self) -> bool {
        match self {
            IG::Point(_) => true,
            IG::MultiPoint(_) => true,
            IG::Line(a, b) => a != b,
            IG::LineString(v) => v.is_empty() || simple_linestring(v),
            IG::MultiLineString(v) => simple_mls(v),
            IG::Polygon(r) => valid_polygon(r),
            IG::MultiPolygon(v) => multipolygon_defect(v, true).is_none(),
            IG::Rect(a, b) => a.0 != b.0 && a.1 != b.1,
            IG::Triangle(a, b, c) => orient_i(*a, *b, *c) != 0,
            IG::Collection(v) => {
                if v.iter().any(|g| matches!(g, IG::Collection(_))) {
                    // nested collections: flatten check
                    let flat: Vec<IG> = flatten(v);
                    return IG::Collection(flat).valid();
                }
                if !v.iter().all(|g| g.valid()) {
                    return false;
                }
                let dims: Vec<i32> = v.iter().map(|g| g.dim()).filter(|&d| d >= 0).collect();
                if dims.windows(2).any(|w| w[0] != w[1]) {
                    return false;
                }
                let ms: Vec<Model> = v.iter().map(|g| g.to_model()).collect();
                for i in 0..ms.len() {
                    for j in i + 1..ms.len() {
                        if crate::model::intersects(&ms[i], &ms[j]) {
                            return false;
                        }
                    }
                }
                true
            }
        }
    }
}
pub fn flatten(v: &[IG]) -> Vec<IG> {
    let mut out = vec![];
    for g in v {
        match g {
            IG::Collection(w) => out.extend(flatten(w)),
            _ => out.push(g.clone()),
        }
    }
    out
}
