//! Per-shard result accumulation and JSON output; guarded execution of oracle and geo calls.
use serde_json::{json, Map, Value};
use std::collections::{BTreeMap, HashSet};
use std::panic::{catch_unwind, AssertUnwindSafe};

pub struct Ctx {
    pub prop: String,
    pub seed: u64,
    pub shard: u64,
    pub nshards: u64,
    pub tier: String,
    pub budget: u64,
    pub out: String,
    pub replay: Option<Value>,
    /// run only this case index (crash replay)
    pub only: Option<u64>,
    /// write the case index to `current_case_<shard>.json` before every case (slow; crash diagnosis)
    pub trace: bool,
}
impl Ctx {
    /// case indices to execute: 0,1,2,... (monitors stop on their budget) or just the `--only` one
    pub fn case_indices(&self) -> Box<dyn Iterator<Item = u64>> {
        match self.only {
            Some(k) => Box::new(std::iter::once(k)),
            None => Box::new(0u64..),
        }
    }
    /// call at the start of every case
    #[inline]
    pub fn mark_case(&self, k: u64) {
        if self.trace {
            let v = json!({"property": self.prop, "seed": self.seed, "shard": self.shard, "nshards": self.nshards, "tier": self.tier, "budget": self.budget, "k": k, "crash_replay": true});
            let _ = std::fs::write(format!("current_case_{}.json", self.shard), v.to_string());
        }
    }
}

pub struct Shard {
    pub evaluations: u64,
    pub cases: u64,
    pub nontrivial: HashSet<u64>,
    pub classes: BTreeMap<String, u64>,
    pub violations: Vec<Value>,
    pub violation_count: u64,
    pub viol_sigs: BTreeMap<String, u64>,
    pub inconclusive: BTreeMap<String, u64>,
    pub samples: Vec<Value>,
    pub notes: Map<String, Value>,
    pub maxima: BTreeMap<String, f64>,
    sample_seen: u64,
}

impl Shard {
    pub fn new() -> Shard {
        Shard {
            evaluations: 0,
            cases: 0,
            nontrivial: HashSet::new(),
            classes: BTreeMap::new(),
            violations: vec![],
            violation_count: 0,
            viol_sigs: BTreeMap::new(),
            inconclusive: BTreeMap::new(),
            samples: vec![],
            notes: Map::new(),
            maxima: BTreeMap::new(),
            sample_seen: 0,
        }
    }
    #[inline]
    pub fn eval(&mut self, n: u64) {
        self.evaluations += n;
    }
    pub fn nontrivial(&mut self, digest: u64) {
        if self.nontrivial.len() < 4_000_000 {
            self.nontrivial.insert(digest);
        }
    }
    pub fn class(&mut self, name: &str) {
        *self.classes.entry(name.to_string()).or_insert(0) += 1;
    }
    pub fn class_n(&mut self, name: &str, n: u64) {
        *self.classes.entry(name.to_string()).or_insert(0) += n;
    }
    pub fn inconclusive(&mut self, why: &str) {
        *self.inconclusive.entry(why.to_string()).or_insert(0) += 1;
    }
    pub fn maximum(&mut self, name: &str, v: f64) {
        let e = self.maxima.entry(name.to_string()).or_insert(0.0);
        if v > *e {
            *e = v
        }
    }
    /// `sig` identifies the kind of failure: "<check>|<call site>|<known-class or ->"
    pub fn violation(&mut self, sig: &str, detail: Value) {
        self.violation_count += 1;
        let c = self.viol_sigs.entry(sig.to_string()).or_insert(0);
        *c += 1;
        // examples of a violation that is NOT a recorded finding (class "-") are always kept (first 2 per signature, up to
        // 200): the examples of recorded findings must never crowd out the one that matters
        let unknown = sig.ends_with("|-");
        let keep = if unknown { *c <= 2 && self.violations.len() < 260 } else { *c <= 3 && self.violations.len() < 60 };
        // (a monitor that limits its own examples hands over Null for the ones it did not build: counted, never stored)
        if keep && !detail.is_null() {
            let mut d = detail;
            if let Value::Object(ref mut m) = d {
                m.insert("sig".into(), json!(sig));
            }
            self.violations.push(d);
        }
    }
    pub fn sample(&mut self, f: impl FnOnce() -> Value) {
        self.sample_seen += 1;
        if self.samples.len() < 4 {
            self.samples.push(f());
        } else if self.sample_seen % 9973 == 0 && self.samples.len() < 8 {
            self.samples.push(f());
        }
    }
    pub fn write(&self, ctx: &Ctx) {
        let mut digests: Vec<u64> = self.nontrivial.iter().cloned().collect();
        digests.sort_unstable();
        let mut bytes = Vec::with_capacity(digests.len() * 8);
        for d in &digests {
            bytes.extend_from_slice(&d.to_le_bytes());
        }
        let _ = std::fs::write(format!("{}.digests", ctx.out), bytes);
        let v = json!({
            "property": ctx.prop, "seed": ctx.seed, "shard": ctx.shard, "nshards": ctx.nshards, "tier": ctx.tier,
            "evaluations": self.evaluations, "cases": self.cases,
            "distinct_nontrivial_shard": self.nontrivial.len(),
            "classes": self.classes, "violation_count": self.violation_count, "viol_sigs": self.viol_sigs,
            "violations": self.violations, "inconclusive": self.inconclusive, "samples": self.samples,
            "notes": self.notes, "maxima": self.maxima, "complete": true,
            "probes": geo::verif_probe::snapshot().into_iter().map(|(n, c)| (n.to_string(), json!(c))).collect::<Map<String, Value>>(),
        });
        std::fs::write(&ctx.out, serde_json::to_string(&v).unwrap()).expect("write shard result");
    }
}

#[derive(Debug, Clone)]
pub enum Caught {
    QOverflow,
    EpsFail,
    Panic(String),
}
pub fn guard<R>(f: impl FnOnce() -> R) -> Result<R, Caught> {
    match catch_unwind(AssertUnwindSafe(f)) {
        Ok(r) => Ok(r),
        Err(e) => {
            if let Some(s) = e.downcast_ref::<&str>() {
                if *s == "QOVF" {
                    return Err(Caught::QOverflow);
                }
                if *s == "EPSFAIL" {
                    return Err(Caught::EpsFail);
                }
                return Err(Caught::Panic(s.to_string()));
            }
            if let Some(s) = e.downcast_ref::<String>() {
                return Err(Caught::Panic(s.clone()));
            }
            Err(Caught::Panic("non-string panic".into()))
        }
    }
}
/// run a call into geo; a panic is returned as Err(message)
pub fn call<R>(f: impl FnOnce() -> R) -> Result<R, String> {
    match guard(f) {
        Ok(r) => Ok(r),
        Err(Caught::Panic(s)) => Err(s),
        Err(Caught::QOverflow) => Err("QOVF inside geo call?".into()),
        Err(Caught::EpsFail) => Err("EPSFAIL inside geo call?".into()),
    }
}

thread_local! {
    pub static LAST_PANIC_LOC: std::cell::RefCell<String> = std::cell::RefCell::new(String::new());
}
pub fn install_quiet_panic_hook() {
    std::panic::set_hook(Box::new(|info| {
        let loc = info.location().map(|l| format!("{}:{}", l.file(), l.line())).unwrap_or_default();
        if std::env::var_os("GVH_PANIC_TRACE").is_some() {
            eprintln!("panic: {info}");
        }
        LAST_PANIC_LOC.with(|c| *c.borrow_mut() = loc);
    }));
}
pub fn last_panic_loc() -> String {
    LAST_PANIC_LOC.with(|c| c.borrow().clone())
}

pub fn hexf(x: f64) -> String {
    format!("{:016x}", x.to_bits())
}

/// CPU time (user + system) consumed by this process so far, in ms. The hang watchdogs of the monitors measure a
/// case by the CPU it burns, not by wall-clock time: a starved, stopped or slow-to-schedule shard on a loaded
/// machine accumulates none, a call that does not terminate accumulates it at full rate. 0 where /proc is missing.
pub fn cpu_ms() -> u64 {
    let s = std::fs::read_to_string("/proc/self/stat").unwrap_or_default();
    let rest = s.rsplit_once(')').map(|x| x.1).unwrap_or("");
    let f: Vec<&str> = rest.split_whitespace().collect();
    // rest starts at field 3 (state): utime is field 14, stime field 15; clock ticks are 10 ms
    let t = |i: usize| f.get(i).and_then(|x| x.parse::<u64>().ok()).unwrap_or(0);
    (t(11) + t(12)) * 10
}
