//! Exact rationals over i128 with checked arithmetic. An overflow panics with the
//! payload "QOVF"; case runners catch it and count the case as inconclusive.
use std::cmp::Ordering;

pub fn qovf() -> ! {
    std::panic::panic_any("QOVF")
}

#[inline]
fn gcd(a: i128, b: i128) -> i128 {
    let (mut a, mut b) = (a.unsigned_abs(), b.unsigned_abs());
    while b != 0 {
        let t = a % b;
        a = b;
        b = t;
    }
    a as i128
}
#[inline]
fn cm(a: i128, b: i128) -> i128 {
    match a.checked_mul(b) {
        Some(v) => v,
        None => qovf(),
    }
}
#[inline]
fn ca(a: i128, b: i128) -> i128 {
    match a.checked_add(b) {
        Some(v) => v,
        None => qovf(),
    }
}

#[derive(Clone, Copy, Debug, PartialEq, Eq, Hash)]
pub struct Q {
    pub n: i128,
    pub d: i128,
}
impl Q {
    pub const ZERO: Q = Q { n: 0, d: 1 };
    pub const ONE: Q = Q { n: 1, d: 1 };
    #[inline]
    pub fn new(n: i128, d: i128) -> Q {
        if d == 0 {
            panic!("Q: zero denominator");
        }
        if d == 1 {
            return Q { n, d };
        }
        let g = gcd(n, d).max(1);
        let s = if d < 0 { -1 } else { 1 };
        Q { n: s * (n / g), d: s * (d / g) }
    }
    #[inline]
    pub fn int(n: i128) -> Q {
        Q { n, d: 1 }
    }
    #[inline]
    pub fn add(self, o: Q) -> Q {
        if self.d == 1 && o.d == 1 {
            return Q { n: ca(self.n, o.n), d: 1 };
        }
        if self.d == o.d {
            return Q::new(ca(self.n, o.n), self.d);
        }
        Q::new(ca(cm(self.n, o.d), cm(o.n, self.d)), cm(self.d, o.d))
    }
    #[inline]
    pub fn neg(self) -> Q {
        Q { n: -self.n, d: self.d }
    }
    #[inline]
    pub fn sub(self, o: Q) -> Q {
        self.add(o.neg())
    }
    #[inline]
    pub fn mul(self, o: Q) -> Q {
        if self.d == 1 && o.d == 1 {
            return Q { n: cm(self.n, o.n), d: 1 };
        }
        // cross-reduce first to keep numbers small
        let g1 = gcd(self.n, o.d).max(1);
        let g2 = gcd(o.n, self.d).max(1);
        Q::new(cm(self.n / g1, o.n / g2), cm(self.d / g2, o.d / g1))
    }
    #[inline]
    pub fn div(self, o: Q) -> Q {
        if o.n == 0 {
            panic!("Q: division by zero");
        }
        self.mul(Q::new(o.d, o.n))
    }
    #[inline]
    pub fn sgn(self) -> i32 {
        self.n.signum() as i32
    }
    #[inline]
    pub fn is_zero(self) -> bool {
        self.n == 0
    }
    #[inline]
    pub fn abs(self) -> Q {
        Q { n: self.n.abs(), d: self.d }
    }
    pub fn half(self) -> Q {
        self.mul(Q { n: 1, d: 2 })
    }
    pub fn min(self, o: Q) -> Q {
        if self <= o {
            self
        } else {
            o
        }
    }
    pub fn max(self, o: Q) -> Q {
        if self >= o {
            self
        } else {
            o
        }
    }
    pub fn to_f64(self) -> f64 {
        // good enough for diagnostics and tolerance comparisons (|n|,|d| < 2^100 typically)
        (self.n as f64) / (self.d as f64)
    }
    /// Exact conversion of a finite f64. None if the dyadic does not fit comfortably.
    pub fn from_f64(x: f64) -> Option<Q> {
        if !x.is_finite() {
            return None;
        }
        if x == 0.0 {
            return Some(Q::ZERO);
        }
        let bits = x.to_bits();
        let sign: i128 = if bits >> 63 == 1 { -1 } else { 1 };
        let exp = ((bits >> 52) & 0x7ff) as i32;
        let frac = (bits & ((1u64 << 52) - 1)) as i128;
        let (mut m, mut e) = if exp == 0 { (frac, -1074) } else { (frac | (1i128 << 52), exp - 1075) };
        while m & 1 == 0 {
            m >>= 1;
            e += 1;
        }
        if e >= 0 {
            if e > 60 {
                return None;
            }
            Some(Q { n: sign * (m << e), d: 1 })
        } else {
            if -e > 62 {
                return None;
            }
            Some(Q { n: sign * m, d: 1i128 << (-e) })
        }
    }
}
impl PartialOrd for Q {
    fn partial_cmp(&self, o: &Q) -> Option<Ordering> {
        Some(self.cmp(o))
    }
}
impl Ord for Q {
    #[inline]
    fn cmp(&self, o: &Q) -> Ordering {
        if self.d == o.d {
            return self.n.cmp(&o.n);
        }
        cm(self.n, o.d).cmp(&cm(o.n, self.d))
    }
}

pub type P = (Q, Q);
#[inline]
pub fn pi(x: i64, y: i64) -> P {
    (Q::int(x as i128), Q::int(y as i128))
}
#[inline]
pub fn cross(o: P, a: P, b: P) -> Q {
    a.0.sub(o.0).mul(b.1.sub(o.1)).sub(a.1.sub(o.1).mul(b.0.sub(o.0)))
}
#[inline]
pub fn dot(o: P, a: P, b: P) -> Q {
    a.0.sub(o.0).mul(b.0.sub(o.0)).add(a.1.sub(o.1).mul(b.1.sub(o.1)))
}
#[inline]
pub fn between(a: Q, b: Q, x: Q) -> bool {
    let (lo, hi) = if a <= b { (a, b) } else { (b, a) };
    lo <= x && x <= hi
}
#[inline]
pub fn on_seg(a: P, b: P, q: P) -> bool {
    between(a.0, b.0, q.0) && between(a.1, b.1, q.1) && cross(a, b, q).is_zero()
}
pub fn mid(a: P, b: P) -> P {
    (a.0.add(b.0).half(), a.1.add(b.1).half())
}
pub fn dist2(a: P, b: P) -> Q {
    let dx = a.0.sub(b.0);
    let dy = a.1.sub(b.1);
    dx.mul(dx).add(dy.mul(dy))
}
/// exact squared distance point–segment
pub fn pt_seg_dist2(p: P, a: P, b: P) -> Q {
    let l2 = dist2(a, b);
    if l2.is_zero() {
        return dist2(p, a);
    }
    let t = dot(a, p, b); // (p-a).(b-a)
    if t.sgn() <= 0 {
        return dist2(p, a);
    }
    if t >= l2 {
        return dist2(p, b);
    }
    let c = cross(a, b, p);
    c.mul(c).div(l2)
}

#[derive(Clone, Copy, Debug, PartialEq)]
pub enum SegX {
    None,
    Point(P),
    Overlap(P, P),
}
/// exact intersection of two (possibly degenerate) closed segments
pub fn seg_x(s0: P, s1: P, t0: P, t1: P) -> SegX {
    if s0 == s1 {
        return if on_seg(t0, t1, s0) { SegX::Point(s0) } else { SegX::None };
    }
    if t0 == t1 {
        return if on_seg(s0, s1, t0) { SegX::Point(t0) } else { SegX::None };
    }
    let d1 = cross(s0, s1, t0).sgn();
    let d2 = cross(s0, s1, t1).sgn();
    if d1 == 0 && d2 == 0 {
        // collinear: project on dominant axis
        let usex = s0.0 != s1.0;
        let key = |q: P| if usex { q.0 } else { q.1 };
        let (a0, a1) = if key(s0) <= key(s1) { (s0, s1) } else { (s1, s0) };
        let (b0, b1) = if key(t0) <= key(t1) { (t0, t1) } else { (t1, t0) };
        let lo = if key(a0) >= key(b0) { a0 } else { b0 };
        let hi = if key(a1) <= key(b1) { a1 } else { b1 };
        return match key(lo).cmp(&key(hi)) {
            Ordering::Less => SegX::Overlap(lo, hi),
            Ordering::Equal => SegX::Point(lo),
            Ordering::Greater => SegX::None,
        };
    }
    if d1 * d2 > 0 {
        return SegX::None;
    }
    let d3 = cross(t0, t1, s0).sgn();
    let d4 = cross(t0, t1, s1).sgn();
    if d3 * d4 > 0 {
        return SegX::None;
    }
    if d1 == 0 {
        return if on_seg(s0, s1, t0) { SegX::Point(t0) } else { SegX::None };
    }
    if d2 == 0 {
        return if on_seg(s0, s1, t1) { SegX::Point(t1) } else { SegX::None };
    }
    if d3 == 0 {
        return if on_seg(t0, t1, s0) { SegX::Point(s0) } else { SegX::None };
    }
    if d4 == 0 {
        return if on_seg(t0, t1, s1) { SegX::Point(s1) } else { SegX::None };
    }
    let den = (s1.0.sub(s0.0)).mul(t1.1.sub(t0.1)).sub((s1.1.sub(s0.1)).mul(t1.0.sub(t0.0)));
    let num = (t0.0.sub(s0.0)).mul(t1.1.sub(t0.1)).sub((t0.1.sub(s0.1)).mul(t1.0.sub(t0.0)));
    let t = num.div(den);
    SegX::Point((s0.0.add(t.mul(s1.0.sub(s0.0))), s0.1.add(t.mul(s1.1.sub(s0.1)))))
}
/// exact squared distance between two closed segments
pub fn seg_seg_dist2(s0: P, s1: P, t0: P, t1: P) -> Q {
    if seg_x(s0, s1, t0, t1) != SegX::None {
        return Q::ZERO;
    }
    pt_seg_dist2(s0, t0, t1).min(pt_seg_dist2(s1, t0, t1)).min(pt_seg_dist2(t0, s0, s1)).min(pt_seg_dist2(t1, s0, s1))
}

/// exact 2^e as f64 (no libm: `powi` has unspecified precision, and Miri perturbs it on purpose)
pub fn pow2(e: i32) -> f64 {
    if e >= -1022 && e <= 1023 {
        f64::from_bits(((1023 + e) as u64) << 52)
    } else if e < -1022 && e >= -1074 {
        f64::from_bits(1u64 << (e + 1074))
    } else if e > 1023 {
        f64::INFINITY
    } else {
        0.0
    }
}
