//! gvh — geo verification harness: runtime monitors for properties C01–C20 (see /verif/DESIGN.md)
#![allow(clippy::all)]
#![allow(dead_code)]
#![allow(deprecated)]

pub mod gen;
pub mod ig;
pub mod model;
pub mod q;
pub mod report;
pub mod rng;

/// bind `$x` to the concrete geometry inside a `Geometry` enum value
#[macro_export]
macro_rules! with_geom {
    ($g:expr, $x:ident => $body:expr) => {
        match $g {
            geo::Geometry::Point($x) => $body,
            geo::Geometry::Line($x) => $body,
            geo::Geometry::LineString($x) => $body,
            geo::Geometry::Polygon($x) => $body,
            geo::Geometry::MultiPoint($x) => $body,
            geo::Geometry::MultiLineString($x) => $body,
            geo::Geometry::MultiPolygon($x) => $body,
            geo::Geometry::GeometryCollection($x) => $body,
            geo::Geometry::Rect($x) => $body,
            geo::Geometry::Triangle($x) => $body,
        }
    };
}

/// like `with_geom!` but only for the listed variants (others give None)
#[macro_export]
macro_rules! with_geom_in {
    ($g:expr, [$($v:ident),*], $x:ident => $body:expr) => {
        match $g {
            $(geo::Geometry::$v($x) => Some($body),)*
            _ => None,
        }
    };
}

pub mod mon;

use report::{Ctx, Shard};
use serde_json::Value;

fn arg(args: &[String], name: &str) -> Option<String> {
    args.iter().position(|a| a == name).and_then(|i| args.get(i + 1).cloned())
}

fn main() {
    let args: Vec<String> = std::env::args().collect();
    if args.len() < 2 {
        eprintln!("usage: gvh run <prop> --seed S --shard i --nshards n --tier quick|thorough --budget N --out FILE\n       gvh replay <file>\n       gvh merge-digests <files...>");
        std::process::exit(2);
    }
    match args[1].as_str() {
        "run" => {
            let prop = args[2].clone();
            let ctx = Ctx {
                prop: prop.clone(),
                seed: arg(&args, "--seed").and_then(|s| s.parse().ok()).unwrap_or(1),
                shard: arg(&args, "--shard").and_then(|s| s.parse().ok()).unwrap_or(0),
                nshards: arg(&args, "--nshards").and_then(|s| s.parse().ok()).unwrap_or(1),
                tier: arg(&args, "--tier").unwrap_or_else(|| "quick".into()),
                budget: arg(&args, "--budget").and_then(|s| s.parse().ok()).unwrap_or(1000),
                out: arg(&args, "--out").unwrap_or_else(|| "/dev/stdout".into()),
                replay: None,
                only: arg(&args, "--only").and_then(|s| s.parse().ok()),
                trace: std::env::var("GVH_TRACE_CASES").is_ok(),
            };
            report::install_quiet_panic_hook();
            let mut sh = Shard::new();
            mon::run(&ctx, &mut sh);
            sh.write(&ctx);
        }
        "replay" => {
            let txt = std::fs::read_to_string(&args[2]).expect("read replay file");
            let v: Value = serde_json::from_str(&txt).expect("parse replay file");
            let v = if v.get("case").is_some() && v["case"].get("crash_replay").is_some() { v["case"].clone() } else { v };
            report::install_quiet_panic_hook();
            let mut sh = Shard::new();
            if v.get("crash_replay").is_some() {
                // re-run exactly the case during which a shard died
                let ctx = Ctx {
                    prop: v["property"].as_str().unwrap_or("").to_string(),
                    seed: v["seed"].as_u64().unwrap_or(1),
                    shard: v["shard"].as_u64().unwrap_or(0),
                    nshards: v["nshards"].as_u64().unwrap_or(1),
                    tier: v["tier"].as_str().unwrap_or("quick").to_string(),
                    budget: v["budget"].as_u64().unwrap_or(1),
                    out: "/dev/null".into(),
                    replay: None,
                    only: v["k"].as_u64(),
                    trace: false,
                };
                println!("re-running case k={} of shard {} (seed {})", v["k"], ctx.shard, ctx.seed);
                mon::run(&ctx, &mut sh);
            } else {
                mon::replay(&v, &mut sh);
            }
            println!("replay: evaluations={} violations={}", sh.evaluations, sh.violation_count);
            for (s, n) in &sh.viol_sigs {
                println!("  {n} x {s}");
            }
            for d in &sh.violations {
                println!("  expected={} got={}", d["expected"], d["got"]);
            }
            std::process::exit(if sh.violation_count > 0 { 1 } else { 0 });
        }
        "merge-digests" => {
            let mut all: Vec<u64> = vec![];
            for f in &args[2..] {
                if let Ok(b) = std::fs::read(f) {
                    for c in b.chunks_exact(8) {
                        all.push(u64::from_le_bytes(c.try_into().unwrap()));
                    }
                }
            }
            all.sort_unstable();
            all.dedup();
            println!("{}", all.len());
        }
        other => {
            if !mon::extra_command(other, &args) {
                eprintln!("unknown command {other}");
                std::process::exit(2);
            }
        }
    }
}
