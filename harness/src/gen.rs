//! Seeded generators of coincidence-rich lattice geometries (DESIGN §2.2). Everything returned by
//! the `gen_*` functions has passed the exact validity predicate of `ig.rs`.
use crate::ig::*;
use crate::rng::Rng;

pub const KINDS: [&str; 18] = [
    "Point",
    "MultiPoint",
    "Line",
    "LineString",
    "LinearRing",
    "Polygon",
    "PolygonHoles",
    "MLS",
    "MLS-shared",
    "MLS-loop",
    "MLS-star3",
    "MultiPolygon",
    "Rect",
    "Triangle",
    "GC-points",
    "GC-lines",
    "GC-areas",
    "Empty",
];

fn pt(r: &mut Rng, g: i64) -> IP {
    (r.range(0, g), r.range(0, g))
}

/// exact angular comparison of doubled points around a doubled center
fn angle_key_cmp(c: (i64, i64), a: (i64, i64), b: (i64, i64)) -> std::cmp::Ordering {
    let (ax, ay) = (a.0 - c.0, a.1 - c.1);
    let (bx, by) = (b.0 - c.0, b.1 - c.1);
    let half = |x: i64, y: i64| if y > 0 || (y == 0 && x > 0) { 0 } else { 1 };
    let (ha, hb) = (half(ax, ay), half(bx, by));
    if ha != hb {
        return ha.cmp(&hb);
    }
    let cr = ax as i128 * by as i128 - ay as i128 * bx as i128;
    if cr > 0 {
        std::cmp::Ordering::Less
    } else if cr < 0 {
        std::cmp::Ordering::Greater
    } else {
        (ax * ax + ay * ay).cmp(&(bx * bx + by * by))
    }
}

fn finish_ring(r: &mut Rng, mut v: Vec<IP>) -> Vec<IP> {
    // random start, random direction, explicit closure
    let n = v.len();
    let s = r.below(n as u64) as usize;
    v.rotate_left(s);
    if r.chance(1, 2) {
        v.reverse();
    }
    let f = v[0];
    v.push(f);
    v
}

/// a simple closed ring (closed explicitly) inside [x0,x1]x[y0,y1]
pub fn simple_ring_in(r: &mut Rng, x0: i64, x1: i64, y0: i64, y1: i64, maxk: usize) -> Option<Vec<IP>> {
    if x1 <= x0 || y1 <= y0 {
        return None;
    }
    for _ in 0..30 {
        let mode = r.below(10);
        let ring: Vec<IP> = if mode < 5 {
            // star-shaped about a half-lattice centre
            let k = r.range(3, maxk.max(3) as i64) as usize;
            let mut pts: Vec<IP> = (0..k).map(|_| (r.range(x0, x1), r.range(y0, y1))).collect();
            pts.sort();
            pts.dedup();
            if pts.len() < 3 {
                continue;
            }
            let c = (r.range(2 * x0, 2 * x1), r.range(2 * y0, 2 * y1));
            let mut d: Vec<(i64, i64)> = pts.iter().map(|p| (2 * p.0, 2 * p.1)).collect();
            if d.contains(&c) {
                continue;
            }
            d.sort_by(|a, b| angle_key_cmp(c, *a, *b));
            d.iter().map(|p| (p.0 / 2, p.1 / 2)).collect()
        } else if mode < 7 {
            // histogram (rectilinear, with collinear vertices when neighbouring heights agree)
            let w = x1 - x0;
            let cols = r.range(1, w.min(4)) as usize;
            let mut xs: Vec<i64> = (0..=cols).map(|i| x0 + (i as i64 * w) / cols as i64).collect();
            xs.dedup();
            if xs.len() < 2 {
                continue;
            }
            let mut v: Vec<IP> = vec![(xs[0], y0), (xs[xs.len() - 1], y0)];
            let hs: Vec<i64> = (0..xs.len() - 1).map(|_| r.range(y0 + 1, y1)).collect();
            for i in (0..xs.len() - 1).rev() {
                let top = (xs[i + 1], hs[i]);
                if *v.last().unwrap() != top {
                    v.push(top);
                }
                v.push((xs[i], hs[i]));
            }
            // v ends at (xs[0], hs[0]); closing edge back to (xs[0], y0)
            v
        } else if mode < 9 {
            // random closed walk of few points, filtered
            let k = r.range(3, 5.min(maxk.max(3)) as i64) as usize;
            (0..k).map(|_| (r.range(x0, x1), r.range(y0, y1))).collect()
        } else {
            // axis-parallel rectangle, possibly with extra collinear vertices
            let (a, b) = ((r.range(x0, x1), r.range(y0, y1)), (r.range(x0, x1), r.range(y0, y1)));
            if a.0 == b.0 || a.1 == b.1 {
                continue;
            }
            let mut v = IG::rect_ring(a, b);
            v.pop();
            if r.chance(1, 2) && (v[1].0 - v[0].0) >= 2 {
                let mx = r.range(v[0].0 + 1, v[1].0 - 1);
                v.insert(1, (mx, v[0].1));
            }
            v
        };
        let ring = finish_ring(r, ring);
        if simple_ring(&ring) {
            return Some(ring);
        }
    }
    None
}

pub fn lattice_points_on(a: IP, b: IP) -> Vec<IP> {
    // interior lattice points of segment ab
    fn gcd(a: i64, b: i64) -> i64 {
        if b == 0 {
            a.abs()
        } else {
            gcd(b, a % b)
        }
    }
    let (dx, dy) = (b.0 - a.0, b.1 - a.1);
    let g = gcd(dx, dy);
    (1..g).map(|k| (a.0 + dx / g * k, a.1 + dy / g * k)).collect()
}

fn ring_segments(rings: &[Vec<IP>]) -> Vec<(IP, IP)> {
    rings.iter().flat_map(|r| r.windows(2).map(|w| (w[0], w[1]))).collect()
}

pub fn gen_polygon(r: &mut Rng, g: i64, holes: usize, tangent: bool) -> Option<IG> {
    let shell = simple_ring_in(r, 0, g, 0, g, 8)?;
    let mut rings = vec![shell];
    let mut tries = 0;
    while rings.len() < 1 + holes && tries < 40 {
        tries += 1;
        let k = r.range(3, 4) as usize;
        let mut h: Vec<IP> = (0..k).map(|_| pt(r, g)).collect();
        if tangent && r.chance(2, 3) {
            // put one hole vertex on the shell (vertex or lattice point on an edge) or on another hole
            let segs = ring_segments(&rings);
            let s = *r.pick(&segs);
            let on = lattice_points_on(s.0, s.1);
            h[0] = if !on.is_empty() && r.chance(1, 2) { *r.pick(&on) } else { s.0 };
        }
        let h = finish_ring(r, h);
        if !simple_ring(&h) {
            continue;
        }
        rings.push(h);
        if !valid_polygon(&rings) {
            rings.pop();
        }
    }
    Some(IG::Polygon(rings))
}

pub fn gen_linestring_pts(r: &mut Rng, g: i64, maxk: usize) -> Option<Vec<IP>> {
    for _ in 0..30 {
        let k = r.range(2, maxk as i64) as usize;
        let v: Vec<IP> = (0..k).map(|_| pt(r, g)).collect();
        if simple_linestring(&v) {
            return Some(v);
        }
    }
    None
}

pub fn gen_kind(r: &mut Rng, kind: &str, g: i64) -> Option<IG> {
    let out = match kind {
        "Point" => IG::Point(pt(r, g)),
        "MultiPoint" => {
            let n = r.range(1, 4);
            IG::MultiPoint((0..n).map(|_| pt(r, g)).collect())
        }
        "Line" => IG::Line(pt(r, g), pt(r, g)),
        "LineString" => IG::LineString(gen_linestring_pts(r, g, 6)?),
        "LinearRing" => IG::LineString(simple_ring_in(r, 0, g, 0, g, 6)?),
        "Polygon" => gen_polygon(r, g, 0, false)?,
        "PolygonHoles" => {
            let nh = r.range(1, 3) as usize;
            let t = r.chance(1, 2);
            gen_polygon(r, g.max(4), nh, t)?
        }
        "MLS" => {
            let n = r.range(1, 3);
            let mut ms = vec![];
            for _ in 0..n {
                ms.push(gen_linestring_pts(r, g, 4)?);
            }
            IG::MultiLineString(ms)
        }
        "MLS-shared" => {
            // members sharing end points in groups of 2
            let a = gen_linestring_pts(r, g, 4)?;
            let mut b = gen_linestring_pts(r, g, 4)?;
            let end = if r.chance(1, 2) { a[0] } else { a[a.len() - 1] };
            if r.chance(1, 2) {
                b[0] = end
            } else {
                let n = b.len();
                b[n - 1] = end
            }
            IG::MultiLineString(vec![a, b])
        }
        "MLS-loop" => {
            // closed loop made of two (or three) open members
            let ring = simple_ring_in(r, 0, g, 0, g, 6)?;
            let n = ring.len(); // closed, n >= 4
            let cut = r.range(1, n as i64 - 2) as usize;
            let a = ring[..=cut].to_vec();
            let mut b = ring[cut..].to_vec();
            if r.chance(1, 2) {
                b.reverse();
            }
            if r.chance(1, 3) && b.len() >= 3 {
                let c2 = r.range(1, b.len() as i64 - 2) as usize;
                let b1 = b[..=c2].to_vec();
                let b2 = b[c2..].to_vec();
                IG::MultiLineString(vec![a, b1, b2])
            } else {
                IG::MultiLineString(vec![a, b])
            }
        }
        "MLS-star3" => {
            let o = pt(r, g);
            let n = r.range(3, 4);
            let mut ms = vec![];
            for _ in 0..n {
                let e = pt(r, g);
                let m = if r.chance(1, 3) { pt(r, g) } else { e };
                let mut v = if m == e { vec![o, e] } else { vec![o, m, e] };
                if r.chance(1, 2) {
                    v.reverse();
                }
                ms.push(v);
            }
            IG::MultiLineString(ms)
        }
        "MultiPolygon" => {
            let n = r.range(1, 3);
            let mut ms: Vec<Vec<Vec<IP>>> = vec![];
            let mut tries = 0;
            while (ms.len() as i64) < n && tries < 20 {
                tries += 1;
                let tg = r.chance(1, 2);
                let p = if r.chance(1, 4) { gen_polygon(r, g, 1, tg)? } else { gen_polygon(r, g, 0, false)? };
                let IG::Polygon(rings) = p else { continue };
                // shift: none, or so that members are likely to be adjacent
                let (dx, dy) = (r.range(-g, g), r.range(-g, g));
                let rings: Vec<Vec<IP>> = rings.iter().map(|x| x.iter().map(|p| (p.0 + dx, p.1 + dy)).collect()).collect();
                ms.push(rings);
                if multipolygon_defect(&ms, true).is_some() {
                    ms.pop();
                }
            }
            IG::MultiPolygon(ms)
        }
        // nested members: land with a lake, an island in the lake (which may carry a pond with an islet of its own), members
        // listed in any order - the inner ones before the outer ones as often as after
        "MultiPolygon-nested" => {
            let s = g.max(8);
            let land = vec![vec![(0, 0), (s, 0), (s, s), (0, s), (0, 0)], vec![(1, 1), (1, s - 1), (s - 1, s - 1), (s - 1, 1), (1, 1)]];
            let (a, b) = (r.range(2, 3), r.range(s - 3, s - 2));
            let mut ms = vec![land];
            if r.chance(1, 2) && b - a >= 4 {
                ms.push(vec![vec![(a, a), (b, a), (b, b), (a, b), (a, a)], vec![(a + 1, a + 1), (a + 1, b - 1), (b - 1, b - 1), (b - 1, a + 1), (a + 1, a + 1)]]);
                if b - a >= 6 {
                    ms.push(vec![vec![(a + 2, a + 2), (b - 2, a + 2), (a + 2, b - 2), (a + 2, a + 2)]]);
                }
            } else {
                // an island that may touch the shore of the lake in a point
                let t = if r.chance(1, 3) { 1 } else { a };
                ms.push(vec![vec![(t, a), (b, a), (b, b), (t, a)]]);
            }
            r.shuffle(&mut ms);
            IG::MultiPolygon(ms)
        }
        "Rect" => IG::Rect(pt(r, g), pt(r, g)),
        "Triangle" => IG::Triangle(pt(r, g), pt(r, g), pt(r, g)),
        "GC-points" | "GC-lines" | "GC-areas" => {
            let n = r.range(1, 3);
            let mut ms: Vec<IG> = vec![];
            let mut tries = 0;
            while (ms.len() as i64) < n && tries < 20 {
                tries += 1;
                let sub: &[&str] = match kind {
                    "GC-points" => &["Point", "MultiPoint"],
                    "GC-lines" => &["Line", "LineString", "LinearRing", "MLS", "MLS-shared"],
                    _ => &["Polygon", "PolygonHoles", "Rect", "Triangle", "MultiPolygon"],
                };
                let k = *r.pick(sub);
                let Some(m) = gen_kind(r, k, g) else { continue };
                let m = m.translate(r.range(-g, g), r.range(-g, g));
                let m = if r.chance(1, 8) { IG::Collection(vec![m]) } else { m };
                ms.push(m);
                if !IG::Collection(ms.clone()).valid() {
                    ms.pop();
                }
            }
            IG::Collection(ms)
        }
        "Empty" => match r.below(6) {
            0 => IG::LineString(vec![]),
            1 => IG::Polygon(vec![]),
            2 => IG::MultiPoint(vec![]),
            3 => IG::MultiLineString(vec![]),
            4 => IG::MultiPolygon(vec![]),
            _ => IG::Collection(vec![]),
        },
        _ => return None,
    };
    if out.valid() {
        Some(out)
    } else {
        None
    }
}

/// weights favour the kinds with interesting topology
pub fn gen_any(r: &mut Rng, g: i64) -> IG {
    loop {
        let k = match r.below(100) {
            0..=5 => "Point",
            6..=12 => "MultiPoint",
            13..=19 => "Line",
            20..=28 => "LineString",
            29..=33 => "LinearRing",
            34..=44 => "Polygon",
            45..=55 => "PolygonHoles",
            56..=59 => "MLS",
            60..=64 => "MLS-shared",
            65..=68 => "MLS-loop",
            69..=72 => "MLS-star3",
            73..=78 => "MultiPolygon",
            79..=80 => "MultiPolygon-nested",
            81..=85 => "Rect",
            86..=90 => "Triangle",
            91..=92 => "GC-points",
            93..=94 => "GC-lines",
            95..=97 => "GC-areas",
            _ => "Empty",
        };
        if let Some(x) = gen_kind(r, k, g) {
            return x;
        }
    }
}

fn all_segments(a: &IG) -> Vec<(IP, IP)> {
    match a {
        IG::Point(_) | IG::MultiPoint(_) => vec![],
        IG::Line(p, q) => vec![(*p, *q)],
        IG::LineString(v) => v.windows(2).map(|w| (w[0], w[1])).collect(),
        IG::Polygon(r) | IG::MultiLineString(r) => ring_segments(r),
        IG::MultiPolygon(v) => v.iter().flat_map(|r| ring_segments(r)).collect(),
        IG::Rect(p, q) => ring_segments(&[IG::rect_ring(*p, *q)]),
        IG::Triangle(p, q, s) => ring_segments(&[vec![*p, *q, *s, *p]]),
        IG::Collection(v) => v.iter().flat_map(all_segments).collect(),
    }
}

/// a point chosen to be interesting w.r.t. `a`: vertex, lattice point on an edge, nearby, or random
pub fn interesting_point(r: &mut Rng, a: &IG, g: i64) -> IP {
    let cs = a.coords();
    let segs = all_segments(a);
    match r.below(10) {
        0..=2 if !cs.is_empty() => *r.pick(&cs),
        3..=5 if !segs.is_empty() => {
            let s = *r.pick(&segs);
            let on = lattice_points_on(s.0, s.1);
            if on.is_empty() {
                s.1
            } else {
                *r.pick(&on)
            }
        }
        6 if !cs.is_empty() => {
            let c = *r.pick(&cs);
            (c.0 + r.range(-1, 1), c.1 + r.range(-1, 1))
        }
        _ => (r.range(-1, g + 1), r.range(-1, g + 1)),
    }
}

/// partner geometry for `a`: half of the time derived from `a` so that touching / overlapping /
/// nested / identical / far-apart configurations all occur often
pub fn partner(r: &mut Rng, a: &IG, g: i64) -> IG {
    for _ in 0..20 {
        let cand: Option<IG> = match r.below(16) {
            0 => Some(IG::Point(interesting_point(r, a, g))),
            1 => {
                let n = r.range(1, 4);
                Some(IG::MultiPoint((0..n).map(|_| interesting_point(r, a, g)).collect()))
            }
            2 => Some(IG::Line(interesting_point(r, a, g), interesting_point(r, a, g))),
            3 => {
                let n = r.range(2, 5);
                Some(IG::LineString((0..n).map(|_| interesting_point(r, a, g)).collect()))
            }
            4 => {
                // translated copy (zero shift = identical point set)
                let (dx, dy) = if r.chance(1, 3) { (0, 0) } else { (r.range(-2, 2), r.range(-2, 2)) };
                Some(a.translate(dx, dy))
            }
            5 => {
                // far away: disjoint envelopes
                let b = gen_any(r, g);
                let (dx, dy) = *r.pick(&[(3 * g + 3, 0), (0, 3 * g + 3), (-3 * g - 3, -3 * g - 3), (g + 1, 0), (0, -g - 1)]);
                Some(b.translate(dx, dy))
            }
            6 => {
                // a stretch of a's linework as a line string (collinear overlap)
                let segs = all_segments(a);
                if segs.is_empty() {
                    None
                } else {
                    let i = r.below(segs.len() as u64) as usize;
                    let n = r.range(1, 3) as usize;
                    let mut v = vec![segs[i].0];
                    for k in 0..n {
                        let s = segs[(i + k) % segs.len()];
                        if *v.last().unwrap() != s.0 {
                            break;
                        }
                        v.push(s.1);
                    }
                    if r.chance(1, 2) {
                        v.reverse();
                    }
                    Some(IG::LineString(v))
                }
            }
            7 => Some(IG::Triangle(interesting_point(r, a, g), interesting_point(r, a, g), interesting_point(r, a, g))),
            8 => Some(IG::Rect(interesting_point(r, a, g), interesting_point(r, a, g))),
            9 => {
                // polygon through interesting points
                let k = r.range(3, 5);
                let v: Vec<IP> = (0..k).map(|_| interesting_point(r, a, g)).collect();
                let f = v[0];
                let mut v = v;
                v.push(f);
                Some(IG::Polygon(vec![v]))
            }
            10 => {
                // a's polygon form / another spelling of the same set is handled elsewhere; here: a's envelope
                let cs = a.coords();
                if cs.is_empty() {
                    None
                } else {
                    let x0 = cs.iter().map(|c| c.0).min().unwrap();
                    let x1 = cs.iter().map(|c| c.0).max().unwrap();
                    let y0 = cs.iter().map(|c| c.1).min().unwrap();
                    let y1 = cs.iter().map(|c| c.1).max().unwrap();
                    Some(IG::Rect((x0, y0), (x1, y1)))
                }
            }
            _ => Some(gen_any(r, g)),
        };
        if let Some(c) = cand {
            if c.valid() {
                return c;
            }
        }
    }
    gen_any(r, g)
}

/// The same point set written differently (C01 / C07 clause). Returns geo geometries directly,
/// because some spellings (Geometry-wrapped, GeometryCollection of one) only exist on that side.
pub fn respellings(r: &mut Rng, a: &IG) -> Vec<(&'static str, IG)> {
    let mut out: Vec<(&'static str, IG)> = vec![];
    let rot = |r: &mut Rng, ring: &Vec<IP>| -> Vec<IP> {
        if ring.len() < 4 {
            return ring.clone();
        }
        let mut v = ring[..ring.len() - 1].to_vec();
        let s = r.below(v.len() as u64) as usize;
        v.rotate_left(s);
        if r.chance(1, 2) {
            v.reverse();
        }
        let f = v[0];
        v.push(f);
        v
    };
    match a {
        IG::Point(p) => {
            out.push(("Point->MultiPoint", IG::MultiPoint(vec![*p])));
        }
        IG::Line(p, q) => {
            out.push(("Line->LineString", IG::LineString(vec![*p, *q])));
            out.push(("Line reversed", IG::Line(*q, *p)));
            out.push(("Line->MLS", IG::MultiLineString(vec![vec![*p, *q]])));
        }
        IG::LineString(v) if !v.is_empty() => {
            let mut w = v.clone();
            w.reverse();
            out.push(("LineString reversed", IG::LineString(w)));
            out.push(("LineString->MLS", IG::MultiLineString(vec![v.clone()])));
            if v.len() >= 4 && v[0] == v[v.len() - 1] {
                out.push(("LinearRing rotated", IG::LineString(rot(r, v))));
            }
            if v.len() == 2 {
                out.push(("LineString->Line", IG::Line(v[0], v[1])));
            }
        }
        IG::Polygon(rings) if !rings.is_empty() => {
            out.push(("Polygon rings rotated/reversed", IG::Polygon(rings.iter().map(|x| rot(r, x)).collect())));
            out.push(("Polygon->MultiPolygon", IG::MultiPolygon(vec![rings.clone()])));
            if rings.len() > 2 {
                let mut rr = rings.clone();
                rr[1..].reverse();
                out.push(("Polygon holes reordered", IG::Polygon(rr)));
            }
        }
        IG::Rect(p, q) => {
            out.push(("Rect->Polygon", IG::Polygon(vec![IG::rect_ring(*p, *q)])));
            out.push(("Rect corners swapped", IG::Rect((p.0, q.1), (q.0, p.1))));
        }
        IG::Triangle(p, q, s) => {
            out.push(("Triangle->Polygon", IG::Polygon(vec![vec![*p, *q, *s, *p]])));
            out.push(("Triangle rotated", IG::Triangle(*q, *s, *p)));
            out.push(("Triangle reversed", IG::Triangle(*s, *q, *p)));
        }
        IG::MultiPoint(v) if v.len() > 1 => {
            let mut w = v.clone();
            r.shuffle(&mut w);
            out.push(("MultiPoint permuted", IG::MultiPoint(w)));
            out.push(("MultiPoint->GC", IG::Collection(v.iter().map(|p| IG::Point(*p)).collect::<Vec<_>>())));
        }
        IG::MultiLineString(v) if v.len() > 1 => {
            let mut w = v.clone();
            r.shuffle(&mut w);
            for m in w.iter_mut() {
                if r.chance(1, 2) {
                    m.reverse()
                }
            }
            out.push(("MLS permuted/reversed", IG::MultiLineString(w)));
        }
        IG::MultiPolygon(v) if v.len() > 1 => {
            let mut w = v.clone();
            r.shuffle(&mut w);
            out.push(("MultiPolygon permuted", IG::MultiPolygon(w)));
        }
        _ => {}
    }
    out.push(("GC of one", IG::Collection(vec![a.clone()])));
    // the same point set with an EMPTY member somewhere in a collection / multi-geometry
    if !a.is_empty() {
        let empty = |r: &mut Rng| match r.below(5) {
            0 => IG::Polygon(vec![]),
            1 => IG::MultiPolygon(vec![]),
            2 => IG::MultiLineString(vec![]),
            3 => IG::MultiPoint(vec![]),
            _ => IG::LineString(vec![]),
        };
        let mut members: Vec<IG> = match a {
            IG::Collection(v) => v.clone(),
            x => vec![x.clone()],
        };
        let at = r.below(members.len() as u64 + 1) as usize;
        members.insert(at, empty(r));
        out.push(("GC with an empty member", IG::Collection(members)));
        match a {
            IG::MultiPolygon(v) if !v.is_empty() => {
                let mut w = v.clone();
                w.insert(r.below(w.len() as u64 + 1) as usize, vec![]);
                out.push(("GC of a MultiPolygon with an empty member", IG::Collection(vec![IG::MultiPolygon(w.clone())])));
                out.push(("MultiPolygon with an empty member", IG::MultiPolygon(w)));
            }
            IG::MultiLineString(v) if !v.is_empty() => {
                let mut w = v.clone();
                w.insert(r.below(w.len() as u64 + 1) as usize, vec![]);
                out.push(("GC of an MLS with an empty member", IG::Collection(vec![IG::MultiLineString(w.clone())])));
                out.push(("MLS with an empty member", IG::MultiLineString(w)));
            }
            _ => {}
        }
    }
    // keep only spellings that are themselves in the domain (e.g. MultiPoint->GC with duplicate points is not disjoint)
    out.retain(|(_, g)| g.valid());
    // rings written from their lexicographically least vertex with the closing coordinate repeated ([A, B, C, A, A]): no
    // point added (repeated coordinates are legal in a valid ring), but the winding pivot now sits on a zero-length segment
    let respell_ring = |ring: &Vec<IP>| -> Vec<IP> {
        if ring.len() < 4 {
            return ring.clone();
        }
        let mut v = ring[..ring.len() - 1].to_vec();
        let least = (0..v.len()).min_by_key(|&i| v[i]).unwrap();
        v.rotate_left(least);
        let f = v[0];
        v.push(f);
        v.push(f);
        v
    };
    // one coordinate written twice in a row somewhere (a zero-length segment inside a line string or a ring): the same
    // point set, and still a valid geometry for geo's own Validation
    let rep = |r: &mut Rng, v: &Vec<IP>| -> Vec<IP> {
        if v.is_empty() {
            return v.clone();
        }
        let at = match r.below(4) {
            0 => 0,
            1 => v.len() - 1,
            _ => r.below(v.len() as u64) as usize,
        };
        let mut w = v.clone();
        w.insert(at, v[at]);
        if r.chance(1, 4) {
            w.insert(at, v[at]);
        }
        w
    };
    match a {
        IG::LineString(v) if v.len() >= 2 => out.push(("LineString with a coordinate written twice in a row", IG::LineString(rep(r, v)))),
        IG::MultiLineString(ms) if ms.iter().any(|m| m.len() >= 2) => {
            let mut w = ms.clone();
            let idx: Vec<usize> = (0..w.len()).filter(|&i| w[i].len() >= 2).collect();
            let i = *r.pick(&idx);
            w[i] = rep(r, &w[i]);
            out.push(("MLS with a coordinate written twice in a row", IG::MultiLineString(w)));
        }
        IG::Polygon(rings) if !rings.is_empty() && rings[0].len() >= 4 => {
            let mut w = rings.clone();
            let i = r.below(w.len() as u64) as usize;
            if w[i].len() >= 4 {
                w[i] = rep(r, &w[i]);
                out.push(("Polygon with a coordinate written twice in a row", IG::Polygon(w)));
            }
        }
        IG::MultiPolygon(ms) if !ms.is_empty() => {
            let mut w = ms.clone();
            let m = r.below(w.len() as u64) as usize;
            if !w[m].is_empty() && w[m][0].len() >= 4 {
                let i = r.below(w[m].len() as u64) as usize;
                if w[m][i].len() >= 4 {
                    w[m][i] = rep(r, &w[m][i]);
                    out.push(("MultiPolygon with a coordinate written twice in a row", IG::MultiPolygon(w)));
                }
            }
        }
        _ => {}
    }
    match a {
        IG::Polygon(rings) if !rings.is_empty() => out.push(("Polygon rings from the least vertex, closing coordinate repeated", IG::Polygon(rings.iter().map(respell_ring).collect()))),
        IG::MultiPolygon(ms) if !ms.is_empty() => out.push(("MultiPolygon rings from the least vertex, closing coordinate repeated", IG::MultiPolygon(ms.iter().map(|rs| rs.iter().map(respell_ring).collect()).collect()))),
        _ => {}
    }
    out
}

// ------------------------------------------------------------------------------------------------
// inputs of realistic size (dozens to hundreds of segments) and nodes of high degree: what lives behind size
// thresholds (bulk-loaded R-trees, sort implementations that switch algorithm with the length, maps keyed by
// direction with many entries at one node) is not reached by rings of <= 8 vertices
// ------------------------------------------------------------------------------------------------
fn primitive_directions(m: i64) -> Vec<IP> {
    fn gcd(a: i64, b: i64) -> i64 {
        if b == 0 { a.abs() } else { gcd(b, a % b) }
    }
    let mut v: Vec<IP> = vec![];
    for x in -m..=m {
        for y in -m..=m {
            if (x, y) != (0, 0) && gcd(x, y) == 1 {
                v.push((x, y));
            }
        }
    }
    // by angle (exact: half-plane, then cross product)
    let half = |p: &IP| if p.1 > 0 || (p.1 == 0 && p.0 > 0) { 0 } else { 1 };
    v.sort_by(|a, b| half(a).cmp(&half(b)).then_with(|| (b.0 * a.1 - b.1 * a.0).cmp(&0)));
    v
}

/// a comb with many teeth narrower than the gaps between them (or a plate with a row of holes wider than the webs): a
/// line across the middle crosses the boundary dozens of times and most of what it crosses is OUTSIDE
pub fn gen_wide_comb(r: &mut Rng) -> IG {
    let k = r.range(9, 34);
    let (tw, gap) = (r.range(1, 2), r.range(2, 4));
    let h = r.range(4, 12);
    let p = tw + gap;
    let w = (k - 1) * p + tw;
    let rings: Vec<Vec<IP>> = if r.chance(2, 3) {
        let mut ring: Vec<IP> = vec![(0, 0), (w, 0)];
        for i in (0..k).rev() {
            let x = i * p;
            let top = h + r.range(0, 3);
            ring.push((x + tw, 1));
            ring.push((x + tw, top));
            ring.push((x, top));
            ring.push((x, 1));
        }
        // the last pushed coordinate is (0, 1); close
        ring.push((0, 0));
        vec![ring]
    } else {
        // plate [-1, w+1] x [0, h] with k-1 holes: the gaps of the comb, one lattice step short of the plate's rim
        let mut rings = vec![vec![(-1, 0), (w + 1, 0), (w + 1, h), (-1, h), (-1, 0)]];
        for i in 0..k - 1 {
            let x = i * p + tw;
            rings.push(vec![(x, 1), (x, h - 1), (x + gap, h - 1), (x + gap, 1), (x, 1)]);
        }
        rings
    };
    let (tr, fl) = (r.chance(1, 2), r.chance(1, 2));
    IG::Polygon(rings.into_iter().map(|rg| rg.into_iter().map(|(x, y)| { let y = if fl { h + 3 - y } else { y }; if tr { (y, x) } else { (x, y) } }).collect()).collect())
}

/// false under the interpreter legs (GVH_NO_LARGE set by the driver): Miri runs some four orders of magnitude slower
/// than the machine, the strata of realistic size stay with the native shards and the ASan legs
pub fn large_enabled() -> bool {
    static ON: std::sync::OnceLock<bool> = std::sync::OnceLock::new();
    *ON.get_or_init(|| std::env::var_os("GVH_NO_LARGE").is_none())
}

pub fn gen_large(r: &mut Rng) -> (IG, &'static str) {
    if !large_enabled() {
        return (gen_any(r, 6), "large:disabled(interpreter leg)");
    }
    match r.below(8) {
        7 => (gen_wide_comb(r), "large:comb_or_plate_with_many_teeth"),
        0 => {
            // star-shaped polygon: vertices at strictly increasing angles, radius varying between 60 % and 100 %
            let n = if r.chance(1, 4) { r.range(258, 330) } else { r.range(40, 180) } as usize;
            // (coordinates stay below ~1500: the exact arrangement works in i128 rationals, crossings of longer edges overflow it)
            let rad = r.range(400, 1200) as f64;
            let mut ring: Vec<IP> = vec![];
            for i in 0..n {
                let a = 2.0 * std::f64::consts::PI * (i as f64) / (n as f64);
                let rr = rad * (0.6 + 0.4 * r.f01());
                let p = ((rr * a.cos()).round() as i64, (rr * a.sin()).round() as i64);
                if ring.last() != Some(&p) {
                    ring.push(p);
                }
            }
            let f = ring[0];
            ring.push(f);
            (IG::Polygon(vec![ring]), "large:star_polygon")
        }
        1 => {
            // a square with a k x k grid of small holes (squares and triangles), some touching their neighbours at a corner
            let k = r.range(3, 7);
            let pitch = 10;
            let w = k * pitch;
            let mut rings = vec![vec![(0, 0), (w, 0), (w, w), (0, w), (0, 0)]];
            for i in 0..k {
                for j in 0..k {
                    let (x, y) = (i * pitch, j * pitch);
                    match r.below(4) {
                        0 => {}
                        1 => rings.push(vec![(x + 2, y + 2), (x + 2, y + 8), (x + 8, y + 8), (x + 8, y + 2), (x + 2, y + 2)]),
                        2 => rings.push(vec![(x + 3, y + 3), (x + 5, y + 8), (x + 8, y + 4), (x + 3, y + 3)]),
                        // reaches the corners of its cell: touches the diagonal neighbours of the same kind in a point
                        _ if (i + j) % 2 == 0 && i > 0 && j > 0 && i < k - 1 && j < k - 1 => rings.push(vec![(x, y), (x, y + pitch), (x + pitch, y + pitch), (x + pitch, y), (x, y)]),
                        _ => rings.push(vec![(x + 4, y + 1), (x + 1, y + 5), (x + 4, y + 9), (x + 7, y + 5), (x + 4, y + 1)]),
                    }
                }
            }
            (IG::Polygon(rings), "large:polygon_with_hole_grid")
        }
        2 => {
            let n = if r.chance(1, 3) { r.range(257, 420) } else { r.range(40, 200) };
            let mut v: Vec<IP> = vec![];
            for i in 0..n {
                v.push((4 * i + r.range(0, 2), r.range(-60, 60)));
            }
            (IG::LineString(v), "large:zigzag_linestring")
        }
        3 => {
            // checkerboard: members touch their diagonal neighbours in exactly one point (a valid MultiPolygon with many touch points)
            let m = r.range(4, 9);
            let s = r.range(2, 6);
            let mut ms = vec![];
            for i in 0..m {
                for j in 0..m {
                    if (i + j) % 2 == 0 && !r.chance(1, 6) {
                        let (x, y) = (i * s, j * s);
                        ms.push(vec![vec![(x, y), (x + s, y), (x + s, y + s), (x, y + s), (x, y)]]);
                    }
                }
            }
            if ms.is_empty() {
                ms.push(vec![vec![(0, 0), (s, 0), (s, s), (0, s), (0, 0)]]);
            }
            (IG::MultiPolygon(ms), "large:checkerboard_multipolygon")
        }
        4 => {
            // fan of segments: one node of high degree
            let dirs = primitive_directions(5);
            let k = r.range(8, 40) as usize;
            let c = (r.range(-20, 20), r.range(-20, 20));
            let mut idx: Vec<usize> = (0..dirs.len()).collect();
            r.shuffle(&mut idx);
            let ms: Vec<Vec<IP>> = idx[..k.min(dirs.len())].iter().map(|&i| { let m = r.range(1, 9); let far = (c.0 + m * dirs[i].0, c.1 + m * dirs[i].1); if r.chance(1, 2) { vec![c, far] } else { vec![far, c] } }).collect();
            (IG::MultiLineString(ms), "large:fan_of_segments")
        }
        5 => {
            // fan of thin triangles sharing their apex: a MultiPolygon whose members all touch in one point
            let dirs = primitive_directions(4);
            let k = r.range(4, (dirs.len() / 2) as i64 - 1) as usize;
            let c = (r.range(-20, 20), r.range(-20, 20));
            let start = r.below(dirs.len() as u64) as usize;
            let m = r.range(2, 12);
            let mut ms = vec![];
            let mut skipped = 0;
            for j in 0..k {
                if r.chance(1, 5) && skipped < 3 {
                    skipped += 1;
                    continue;
                }
                let (d0, d1) = (dirs[(start + 2 * j) % dirs.len()], dirs[(start + 2 * j + 1) % dirs.len()]);
                if 2 * j + 1 >= dirs.len() {
                    break;
                }
                ms.push(vec![vec![c, (c.0 + m * d0.0, c.1 + m * d0.1), (c.0 + m * d1.0, c.1 + m * d1.1), c]]);
            }
            if ms.is_empty() {
                ms.push(vec![vec![c, (c.0 + m, c.1), (c.0 + m, c.1 + m), c]]);
            }
            (IG::MultiPolygon(ms), "large:fan_of_triangles")
        }
        _ => {
            let n = r.range(50, 300);
            (IG::MultiPoint((0..n).map(|_| (r.range(-200, 200), r.range(-200, 200))).collect()), "large:multipoint")
        }
    }
}

/// a partner for a large operand: itself, a slightly moved copy, a long line across it, a rectangle over a quarter of
/// it, a coordinate of it, a fan centred at one of its coordinates, or another large shape moved onto it
pub fn large_partner(r: &mut Rng, a: &IG) -> IG {
    let cs = a.coords();
    let (x0, x1) = (cs.iter().map(|p| p.0).min().unwrap_or(0), cs.iter().map(|p| p.0).max().unwrap_or(1));
    let (y0, y1) = (cs.iter().map(|p| p.1).min().unwrap_or(0), cs.iter().map(|p| p.1).max().unwrap_or(1));
    let v = if cs.is_empty() { (0, 0) } else { cs[r.below(cs.len() as u64) as usize] };
    match r.below(10) {
        0 => a.clone(),
        1 => a.translate(r.range(-3, 3), r.range(-3, 3)),
        2 => {
            let n = r.range(2, 60);
            let step = ((x1 - x0) / n).max(1);
            IG::LineString((0..=n).map(|i| (x0 + i * step, if i % 2 == 0 { y0 + (y1 - y0) / 3 } else { y0 + 2 * (y1 - y0) / 3 + r.range(0, 2) })).collect())
        }
        3 => IG::Rect((x0, y0), (((x0 + x1) / 2).max(x0 + 1), ((y0 + y1) / 2).max(y0 + 1))),
        4 => IG::Point(v),
        5 => {
            let dirs = primitive_directions(3);
            let k = r.range(3, 16) as usize;
            let mut idx: Vec<usize> = (0..dirs.len()).collect();
            r.shuffle(&mut idx);
            let m = ((x1 - x0) / 8).max(1);
            IG::MultiLineString(idx[..k].iter().map(|&i| vec![v, (v.0 + m * dirs[i].0, v.1 + m * dirs[i].1)]).collect())
        }
        6 => IG::Line((x0 - 1, v.1), (x1 + 1, v.1)),
        7 | 8 => {
            // a short line through the MIDDLE of one segment of a (a proper crossing in the interior of both), or, failing a
            // segment, through a coordinate
            let segs: Vec<(IP, IP)> = all_segments(a).into_iter().filter(|s| s.0 != s.1).collect();
            if segs.is_empty() {
                IG::Line((v.0 - 1, v.1 - 2), (v.0 + 1, v.1 + 2))
            } else {
                // any segment; often one of the last few, or one that straddles a block of 16 / 32 / 64 / 128 / 256 coordinates
                let n = segs.len();
                let i = match r.below(3) {
                    0 => n - 1 - r.below(n.min(10) as u64) as usize,
                    1 => {
                        let b = *r.pick(&[16usize, 32, 64, 128, 256]);
                        let m = 1 + r.below(4) as usize;
                        (m * b - 1).min(n - 1)
                    }
                    _ => r.below(n as u64) as usize,
                };
                let (p, q) = segs[i];
                let d = (q.0 - p.0, q.1 - p.1);
                IG::Line((p.0 - d.1, p.1 + d.0), (q.0 + d.1, q.1 - d.0))
            }
        }
        _ => {
            let (b, _) = gen_large(r);
            let bc = b.coords();
            if bc.is_empty() {
                return b;
            }
            // put one of its coordinates onto one of a's
            let w = bc[r.below(bc.len() as u64) as usize];
            b.translate(v.0 - w.0, v.1 - w.1)
        }
    }
}

/// (a, b, class) in random operand order, both inside the relate domain - or None
pub fn gen_large_pair(r: &mut Rng) -> Option<(IG, IG, &'static str)> {
    let (a, class) = gen_large(r);
    if !a.valid() {
        return None;
    }
    let b = large_partner(r, &a);
    if !b.valid() || a.n_segments() + b.n_segments() > 700 {
        return None;
    }
    Some(if r.chance(1, 2) { (a, b, class) } else { (b, a, class) })
}

/// a long ring (hundreds of coordinates): a star polygon ring, or a rectangle whose sides carry a vertex at every lattice
/// step (many collinear vertices in a row), closed; n coordinates including the closing one
pub fn long_ring(r: &mut Rng, n: usize) -> Vec<IP> {
    if r.chance(1, 2) {
        let rad = r.range(400, 1200) as f64;
        let mut ring: Vec<IP> = vec![];
        let m = n.max(4) - 1;
        for i in 0..m {
            let a = 2.0 * std::f64::consts::PI * (i as f64) / (m as f64);
            let rr = rad * (0.6 + 0.4 * r.f01());
            let p = ((rr * a.cos()).round() as i64, (rr * a.sin()).round() as i64);
            if ring.last() != Some(&p) {
                ring.push(p);
            }
        }
        let f = ring[0];
        ring.push(f);
        ring
    } else {
        // w + h = (n - 1) / 2 steps along the sides
        let half = ((n.max(9) - 1) / 2) as i64;
        let w = r.range(1, half - 1);
        let h = half - w;
        let mut ring: Vec<IP> = vec![];
        for x in 0..w {
            ring.push((x, 0));
        }
        for y in 0..h {
            ring.push((w, y));
        }
        for x in 0..w {
            ring.push((w - x, h));
        }
        for y in 0..h {
            ring.push((0, h - y));
        }
        // start anywhere
        let k = r.below(ring.len() as u64) as usize;
        ring.rotate_left(k);
        if r.chance(1, 2) {
            ring.reverse();
        }
        let f = ring[0];
        ring.push(f);
        ring
    }
}

/// a count just around / well beyond the block sizes code likes to use (16 .. 1024)
pub fn long_count(r: &mut Rng) -> usize {
    if !large_enabled() {
        return r.range(5, 12) as usize;
    }
    let base = *r.pick(&[16usize, 32, 64, 128, 256, 512]);
    match r.below(4) {
        0 => base + 1 + r.below(4) as usize,
        1 => 2 * base + 1 + r.below(8) as usize,
        2 => base + r.below(base as u64) as usize,
        _ => r.range(130, 700) as usize,
    }
}

/// many small members on a grid (17-100 of them, separated from one another), as MultiPolygon / MultiLineString /
/// MultiPoint / GeometryCollection, and a partner that is near ONE member in the middle of the listing while its
/// envelope overlaps the envelopes of many: a "street" between two rows or columns, a short segment in a gap, a point
pub fn gen_many_members(r: &mut Rng) -> (IG, IG, &'static str) {
    let (nx, ny) = (r.range(3, 10), r.range(3, 10));
    let pitch = r.range(4, 9);
    let size = r.range(1, pitch - 2);
    let kind = r.below(4);
    let mut cells: Vec<(i64, i64)> = vec![];
    for j in 0..ny {
        for i in 0..nx {
            if !r.chance(1, 8) {
                cells.push((i * pitch, j * pitch));
            }
        }
    }
    if r.chance(1, 2) {
        r.shuffle(&mut cells);
    }
    let sq = |c: &(i64, i64)| vec![vec![(c.0, c.1), (c.0 + size, c.1), (c.0 + size, c.1 + size), (c.0, c.1 + size), (c.0, c.1)]];
    let (a, class) = match kind {
        0 => (IG::MultiPolygon(cells.iter().map(sq).collect()), "many:multipolygon_grid"),
        1 => (IG::MultiLineString(cells.iter().map(|c| vec![(c.0, c.1), (c.0 + size, c.1 + size)]).collect()), "many:multilinestring_grid"),
        2 => (IG::MultiPoint(cells.iter().map(|c| (c.0, c.1)).collect()), "many:multipoint_grid"),
        _ => (IG::Collection(cells.iter().map(|c| IG::Polygon(sq(c))).collect()), "many:collection_grid"),
    };
    // gap between row j and row j+1: y in (j*pitch + size, (j+1)*pitch)
    let j = r.range(0, ny - 2);
    let y = j * pitch + size + r.range(1, pitch - size - 1).max(1);
    let i = r.range(0, nx - 2);
    let x = i * pitch + size + r.range(1, pitch - size - 1).max(1);
    let b = match r.below(6) {
        0 => IG::Line((-2, y), (nx * pitch + 2, y)),
        1 => IG::Line((x, -2), (x, ny * pitch + 2)),
        2 => IG::LineString(vec![(-2, y), ((nx * pitch) / 2, y), (nx * pitch + 2, y)]),
        3 => IG::Point((x, y)),
        4 => IG::Polygon(vec![vec![(-3, y), (nx * pitch + 3, y), (nx * pitch + 3, y), (-3, y)]]),
        _ => IG::Line((x, y), (x + r.range(0, 2), y)),
    };
    let b = if b.valid() { b } else { IG::Point((x, y)) };
    if r.chance(1, 2) { (a, b, class) } else { (b, a, class) }
}

pub fn all_segments_pub(a: &IG) -> Vec<(IP, IP)> {
    all_segments(a).into_iter().filter(|s| s.0 != s.1).collect()
}
