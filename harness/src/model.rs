//! Exact point-set model of a geometry and the arrangement-based DE-9IM oracle (DESIGN §2.1).
//! Independent of the code under test: no bounding boxes, no `robust`, no graph labelling.
use crate::q::*;

#[derive(Clone, Debug, PartialEq)]
pub enum Model {
    Empty,
    Pts(Vec<P>),
    /// member line strings
    Lns(Vec<Vec<P>>),
    /// member polygons, each a list of closed rings (first = shell)
    Ars(Vec<Vec<Vec<P>>>),
}
#[derive(Clone, Copy, PartialEq, Eq, Debug, Hash)]
pub enum Loc {
    I = 0,
    B = 1,
    E = 2,
}

/// even–odd location w.r.t. the region bounded by a set of rings
pub fn loc_rings(rings: &[Vec<P>], q: P) -> Loc {
    let mut par = 0;
    for r in rings {
        for w in r.windows(2) {
            let (a, b) = (w[0], w[1]);
            if on_seg(a, b, q) {
                return Loc::B;
            }
            let (lo, hi) = if a.1 <= b.1 { (a, b) } else { (b, a) };
            if lo.1 <= q.1 && q.1 < hi.1 && cross(lo, hi, q).sgn() > 0 {
                par += 1;
            }
        }
    }
    if par % 2 == 1 {
        Loc::I
    } else {
        Loc::E
    }
}

impl Model {
    pub fn dim(&self) -> i8 {
        match self {
            Model::Empty => -1,
            Model::Pts(_) => 0,
            Model::Lns(_) => 1,
            Model::Ars(_) => 2,
        }
    }
    pub fn segs(&self) -> Vec<(P, P)> {
        let mut v = vec![];
        match self {
            Model::Lns(ls) => {
                for l in ls {
                    for w in l.windows(2) {
                        if w[0] != w[1] {
                            v.push((w[0], w[1]))
                        }
                    }
                }
            }
            Model::Ars(ps) => {
                for pg in ps {
                    for r in pg {
                        for w in r.windows(2) {
                            if w[0] != w[1] {
                                v.push((w[0], w[1]))
                            }
                        }
                    }
                }
            }
            _ => {}
        }
        v
    }
    pub fn isolated(&self) -> Vec<P> {
        match self {
            Model::Pts(p) => p.clone(),
            // degenerate single-point line strings behave as points for the arrangement
            Model::Lns(ls) => ls.iter().filter(|l| l.windows(2).all(|w| w[0] == w[1])).map(|l| l[0]).collect(),
            _ => vec![],
        }
    }
    pub fn vertices(&self) -> Vec<P> {
        match self {
            Model::Empty => vec![],
            Model::Pts(p) => p.clone(),
            Model::Lns(ls) => ls.iter().flatten().cloned().collect(),
            Model::Ars(ps) => ps.iter().flatten().flatten().cloned().collect(),
        }
    }
    /// location of a rational point: interior / boundary / exterior (SFS mod-2 rule for lines)
    pub fn loc(&self, q: P) -> Loc {
        match self {
            Model::Empty => Loc::E,
            Model::Pts(ps) => {
                if ps.contains(&q) {
                    Loc::I
                } else {
                    Loc::E
                }
            }
            Model::Lns(ls) => {
                let mut on = false;
                let mut ends = 0;
                for l in ls {
                    if l.len() == 1 {
                        if l[0] == q {
                            on = true
                        }
                        continue;
                    }
                    if l.windows(2).any(|w| on_seg(w[0], w[1], q)) {
                        on = true;
                    }
                    if l[0] != l[l.len() - 1] {
                        if l[0] == q {
                            ends += 1;
                        }
                        if l[l.len() - 1] == q {
                            ends += 1;
                        }
                    }
                }
                if !on {
                    Loc::E
                } else if ends % 2 == 1 {
                    Loc::B
                } else {
                    Loc::I
                }
            }
            Model::Ars(ps) => {
                let mut par = 0;
                for pg in ps {
                    for r in pg {
                        for w in r.windows(2) {
                            let (a, b) = (w[0], w[1]);
                            if on_seg(a, b, q) {
                                return Loc::B;
                            }
                            let (lo, hi) = if a.1 <= b.1 { (a, b) } else { (b, a) };
                            if lo.1 <= q.1 && q.1 < hi.1 && cross(lo, hi, q).sgn() > 0 {
                                par += 1;
                            }
                        }
                    }
                }
                if par % 2 == 1 {
                    Loc::I
                } else {
                    Loc::E
                }
            }
        }
    }
    /// exact (signed by ring direction ignored) area: sum over members of |shell| - sum |holes|, times 2
    pub fn area2(&self) -> Q {
        let mut s = Q::ZERO;
        if let Model::Ars(ps) = self {
            for pg in ps {
                for (k, r) in pg.iter().enumerate() {
                    let mut a = Q::ZERO;
                    for w in r.windows(2) {
                        a = a.add(w[0].0.mul(w[1].1).sub(w[1].0.mul(w[0].1)));
                    }
                    let a = a.abs();
                    s = if k == 0 { s.add(a) } else { s.sub(a) };
                }
            }
        }
        s
    }
    pub fn bbox(&self) -> Option<(P, P)> {
        let v = self.vertices();
        if v.is_empty() {
            return None;
        }
        let mut lo = v[0];
        let mut hi = v[0];
        for p in v {
            lo = (lo.0.min(p.0), lo.1.min(p.1));
            hi = (hi.0.max(p.0), hi.1.max(p.1));
        }
        Some((lo, hi))
    }
}

pub type Mat = [[i8; 3]; 3];
pub fn mstr(m: &Mat) -> String {
    m.iter()
        .flatten()
        .map(|&d| match d {
            -1 => 'F',
            0 => '0',
            1 => '1',
            _ => '2',
        })
        .collect()
}
pub fn transpose(m: &Mat) -> Mat {
    let mut t = [[-1i8; 3]; 3];
    for i in 0..3 {
        for j in 0..3 {
            t[i][j] = m[j][i];
        }
    }
    t
}

/// Coincidence classes seen while building the arrangement (evidence + known-finding signatures)
#[derive(Clone, Copy, Default, Debug, PartialEq, Eq, Hash)]
pub struct Classes(pub u32);
impl Classes {
    pub const SHARED_VERTEX: u32 = 1;
    pub const VERTEX_ON_EDGE: u32 = 2;
    pub const COLLINEAR_OVERLAP: u32 = 4;
    pub const PROPER_CROSSING: u32 = 8;
    pub const BBOX_DISJOINT: u32 = 16;
    pub const BBOX_NESTED: u32 = 32;
    pub const POINT_ON_EDGE: u32 = 64;
    pub const POINT_ON_VERTEX: u32 = 128;
    pub const MOD2_SHARED_END_EVEN: u32 = 256;
    pub const MOD2_SHARED_END_ODD3: u32 = 512;
    pub const HOLE_TOUCHES_SHELL: u32 = 1024;
    pub const NAMES: [&'static str; 11] = [
        "shared_vertex",
        "vertex_on_edge",
        "collinear_overlap",
        "proper_crossing",
        "bbox_disjoint",
        "bbox_nested",
        "point_on_edge",
        "point_on_vertex",
        "mls_end_shared_even",
        "mls_end_shared_3plus_odd",
        "hole_touches_shell",
    ];
    pub fn set(&mut self, b: u32) {
        self.0 |= b
    }
    pub fn has(&self, b: u32) -> bool {
        self.0 & b != 0
    }
    pub fn names(&self) -> Vec<&'static str> {
        (0..11).filter(|i| self.0 & (1 << i) != 0).map(|i| Self::NAMES[i]).collect()
    }
}

fn self_classes(m: &Model, cl: &mut Classes) {
    match m {
        Model::Lns(ls) => {
            let mut ends: Vec<P> = vec![];
            for l in ls {
                if l.len() >= 2 && l[0] != l[l.len() - 1] {
                    ends.push(l[0]);
                    ends.push(l[l.len() - 1]);
                }
            }
            let mut e = ends.clone();
            e.sort();
            let mut i = 0;
            while i < e.len() {
                let mut j = i;
                while j < e.len() && e[j] == e[i] {
                    j += 1;
                }
                let c = j - i;
                if c >= 2 && c % 2 == 0 {
                    cl.set(Classes::MOD2_SHARED_END_EVEN)
                }
                if c >= 3 && c % 2 == 1 {
                    cl.set(Classes::MOD2_SHARED_END_ODD3)
                }
                i = j;
            }
        }
        Model::Ars(ps) => {
            for pg in ps {
                for h in pg.iter().skip(1) {
                    for &v in h.iter() {
                        if pg[0].windows(2).any(|w| on_seg(w[0], w[1], v)) {
                            cl.set(Classes::HOLE_TOUCHES_SHELL)
                        }
                    }
                    for &v in pg[0].iter() {
                        if h.windows(2).any(|w| on_seg(w[0], w[1], v)) {
                            cl.set(Classes::HOLE_TOUCHES_SHELL)
                        }
                    }
                }
            }
        }
        _ => {}
    }
}

pub struct Relate {
    pub m: Mat,
    pub classes: Classes,
}

/// The true DE-9IM matrix of two piecewise-linear point sets, by exact arrangement + witnesses.
pub fn relate(a: &Model, b: &Model) -> Relate {
    let mut m = [[-1i8; 3]; 3];
    let mut cl = Classes::default();
    self_classes(a, &mut cl);
    self_classes(b, &mut cl);
    let sa = a.segs();
    let sb = b.segs();
    let na = sa.len();
    let mut all = sa;
    all.extend(sb);
    let ia = a.isolated();
    let ib = b.isolated();
    let mut iso = ia.clone();
    iso.extend(ib.iter().cloned());
    match (a.bbox(), b.bbox()) {
        (Some((alo, ahi)), Some((blo, bhi))) => {
            if ahi.0 < blo.0 || bhi.0 < alo.0 || ahi.1 < blo.1 || bhi.1 < alo.1 {
                cl.set(Classes::BBOX_DISJOINT)
            } else if (alo.0 <= blo.0 && bhi.0 <= ahi.0 && alo.1 <= blo.1 && bhi.1 <= ahi.1) || (blo.0 <= alo.0 && ahi.0 <= bhi.0 && blo.1 <= alo.1 && ahi.1 <= bhi.1) {
                cl.set(Classes::BBOX_NESTED)
            }
        }
        _ => {}
    }
    let upd = |m: &mut Mat, q: P, d: i8| {
        let c = &mut m[a.loc(q) as usize][b.loc(q) as usize];
        if *c < d {
            *c = d
        }
    };
    // far point: beyond every coordinate
    let mut far = Q::int(1);
    for &(s0, s1) in &all {
        for q in [s0, s1] {
            far = far.max(q.0.abs()).max(q.1.abs());
        }
    }
    for &q in &iso {
        far = far.max(q.0.abs()).max(q.1.abs());
    }
    let far = far.add(Q::int(7));
    upd(&mut m, (far, far.add(Q::int(3))), 2);

    let mut verts: Vec<P> = iso.clone();
    for (i, &(s0, s1)) in all.iter().enumerate() {
        let usex = s0.0 != s1.0;
        let key = |q: P| if usex { q.0 } else { q.1 };
        let mut pts: Vec<P> = vec![s0, s1];
        for (j, &(t0, t1)) in all.iter().enumerate() {
            if i == j {
                continue;
            }
            let cross_ab = (i < na) != (j < na);
            match seg_x(s0, s1, t0, t1) {
                SegX::None => {}
                SegX::Point(p) => {
                    pts.push(p);
                    if cross_ab {
                        let e1 = p == s0 || p == s1;
                        let e2 = p == t0 || p == t1;
                        cl.set(if e1 && e2 {
                            Classes::SHARED_VERTEX
                        } else if e1 || e2 {
                            Classes::VERTEX_ON_EDGE
                        } else {
                            Classes::PROPER_CROSSING
                        });
                    }
                }
                SegX::Overlap(p, q) => {
                    pts.push(p);
                    pts.push(q);
                    if cross_ab {
                        cl.set(Classes::COLLINEAR_OVERLAP)
                    }
                }
            }
        }
        for (k, &q) in iso.iter().enumerate() {
            if on_seg(s0, s1, q) {
                pts.push(q);
                let pt_of_a = k < ia.len();
                if pt_of_a != (i < na) {
                    cl.set(if q == s0 || q == s1 { Classes::POINT_ON_VERTEX } else { Classes::POINT_ON_EDGE });
                }
            }
        }
        pts.sort_by(|x, y| key(*x).cmp(&key(*y)));
        pts.dedup();
        let n = (s0.1.sub(s1.1), s1.0.sub(s0.0));
        for w in pts.windows(2) {
            let md = mid(w[0], w[1]);
            upd(&mut m, md, 1);
            for sign in [1i128, -1] {
                let mut eps = Q::new(sign, 4);
                let mut ok = false;
                for _ in 0..48 {
                    let q = (md.0.add(eps.mul(n.0)), md.1.add(eps.mul(n.1)));
                    // the half-open probe segment (md, q] must meet no input segment and no isolated point
                    let clear = all.iter().all(|&(u0, u1)| match seg_x(md, q, u0, u1) {
                        SegX::None => true,
                        SegX::Point(p) => p == md,
                        SegX::Overlap(..) => false,
                    }) && iso.iter().all(|&z| !on_seg(md, q, z));
                    if clear {
                        upd(&mut m, q, 2);
                        ok = true;
                        break;
                    }
                    eps = eps.half();
                }
                if !ok {
                    std::panic::panic_any("EPSFAIL");
                }
            }
        }
        verts.extend(pts);
    }
    verts.sort();
    verts.dedup();
    for v in verts {
        upd(&mut m, v, 0);
    }
    Relate { m, classes: cl }
}

pub fn intersects(a: &Model, b: &Model) -> bool {
    let m = relate(a, b).m;
    m[0][0] >= 0 || m[0][1] >= 0 || m[1][0] >= 0 || m[1][1] >= 0
}
/// mask predicates on a matrix
pub fn mask_intersects(m: &Mat) -> bool {
    m[0][0] >= 0 || m[0][1] >= 0 || m[1][0] >= 0 || m[1][1] >= 0
}
/// a contains b  <=>  T*****FF*
pub fn mask_contains(m: &Mat) -> bool {
    m[0][0] >= 0 && m[2][0] < 0 && m[2][1] < 0
}
/// a within b  <=>  T*F**F***
pub fn mask_within(m: &Mat) -> bool {
    m[0][0] >= 0 && m[0][2] < 0 && m[1][2] < 0
}

/// exact minimum squared distance between two models (0 if they intersect, incl. containment)
pub fn dist2_models(a: &Model, b: &Model) -> Option<Q> {
    if matches!(a, Model::Empty) || matches!(b, Model::Empty) {
        return None;
    }
    // containment / intersection via locations: any vertex of one not exterior to the other, or crossing segments
    let va = a.vertices();
    let vb = b.vertices();
    if va.iter().any(|&p| b.loc(p) != Loc::E) || vb.iter().any(|&p| a.loc(p) != Loc::E) {
        return Some(Q::ZERO);
    }
    let sa = a.segs();
    let sb = b.segs();
    let pa: Vec<P> = if sa.is_empty() { va.clone() } else { a.isolated() };
    let pb: Vec<P> = if sb.is_empty() { vb.clone() } else { b.isolated() };
    let mut best: Option<Q> = None;
    let mut put = |d: Q| {
        best = Some(match best {
            None => d,
            Some(x) => x.min(d),
        })
    };
    for &(s0, s1) in &sa {
        for &(t0, t1) in &sb {
            put(seg_seg_dist2(s0, s1, t0, t1));
        }
        for &p in &pb {
            put(pt_seg_dist2(p, s0, s1));
        }
    }
    for &p in &pa {
        for &(t0, t1) in &sb {
            put(pt_seg_dist2(p, t0, t1));
        }
        for &q in &pb {
            put(dist2(p, q));
        }
    }
    best
}
