#!/usr/bin/env python3
"""Second, independent implementation of the C06 reference (Fractions + 60-digit Decimal), used to
cross-check the reference inside src/mon/c06.rs.

    GVH_C06_DUMP=/tmp/c06_dump.jsonl gvh run C06 --seed 5 --shard 3 --nshards 16 --tier quick --budget 20000 --out /tmp/x.json
    python3 xcheck_c06.py /tmp/c06_dump.jsonl

Each line of the dump holds the lattice geometry, the dominant dimension found by the Rust reference and
its expected centroid(s) in lattice units. This script recomputes them from first principles with a
different decomposition (signed triangle fan about the origin instead of the Green / shoelace moment
sums, Decimal square roots instead of f64 + double-double) and reports every disagreement.
A disagreement is a harness error, never a verdict about geo.
"""
import json, sys
from fractions import Fraction as F
from decimal import Decimal, getcontext

getcontext().prec = 60


def ring_closed(r):
    r = [tuple(p) for p in r]
    if len(r) >= 2 and r[0] != r[-1]:
        r.append(r[0])
    return r


def fan(r):
    """(signed area, area*cx, area*cy) by a triangle fan about the origin"""
    a = sx = sy = F(0)
    for p, q in zip(r, r[1:]):
        t = F(p[0] * q[1] - q[0] * p[1], 2)
        a += t
        sx += t * F(p[0] + q[0], 3)
        sy += t * F(p[1] + q[1], 3)
    return a, sx, sy


class Acc:
    def __init__(self):
        self.areal = []  # (area, area*cx, area*cy)
        self.segs = []
        self.pts = []  # (p, lo, hi)
        self.ood = False

    def segs_of(self, v):
        for p, q in zip(v, v[1:]):
            if p != q:
                self.segs.append((p, q))

    def linestring(self, v):
        v = [tuple(p) for p in v]
        if not v:
            return
        if all(p == v[0] for p in v):
            self.pts.append((v[0], 1, max(1, len(v) - 1)))
        else:
            self.segs_of(v)

    def polygon(self, rings):
        if not rings or not rings[0]:
            if any(rings[1:]):
                self.ood = True
            return
        ext = ring_closed(rings[0])
        a, sx, sy = fan(ext)
        if a == 0:
            if any(rings[1:]):
                self.ood = True
            if all(p == ext[0] for p in ext):
                self.pts.append((ext[0], 1, 1))
            else:
                self.segs_of(ext)
            return
        s = 1 if a > 0 else -1
        w, mx, my = abs(a), s * sx, s * sy
        for h in rings[1:]:
            if not h:
                continue
            ha, hx, hy = fan(ring_closed(h))
            if ha == 0:
                continue
            hs = 1 if ha > 0 else -1
            w -= abs(ha)
            mx -= hs * hx
            my -= hs * hy
        if w > 0:
            self.areal.append((w, mx, my))
        elif w == 0:
            self.segs_of(ext)
        else:
            self.ood = True

    def walk(self, g):
        t, c = g["t"], g["c"]
        if t == "Point":
            self.pts.append((tuple(c), 1, 1))
        elif t == "MultiPoint":
            for p in c:
                self.pts.append((tuple(p), 1, 1))
        elif t == "Line":
            a, b = tuple(c[0]), tuple(c[1])
            if a == b:
                self.pts.append((a, 1, 1))
            else:
                self.segs.append((a, b))
        elif t == "LineString":
            self.linestring(c)
        elif t == "MultiLineString":
            for v in c:
                self.linestring(v)
        elif t == "Polygon":
            self.polygon(c)
        elif t == "MultiPolygon":
            for p in c:
                self.polygon(p)
        elif t == "Rect":
            (ax, ay), (bx, by) = c
            x0, x1, y0, y1 = min(ax, bx), max(ax, bx), min(ay, by), max(ay, by)
            if x0 != x1 and y0 != y1:
                w = F((x1 - x0) * (y1 - y0))
                self.areal.append((w, w * F(x0 + x1, 2), w * F(y0 + y1, 2)))
            elif x0 == x1 and y0 == y1:
                self.pts.append(((x0, y0), 1, 1))
            else:
                self.segs += [((x0, y0), (x1, y1)), ((x1, y1), (x0, y0))]
        elif t == "Triangle":
            a, b, cc = [tuple(p) for p in c]
            o = (b[0] - a[0]) * (cc[1] - a[1]) - (b[1] - a[1]) * (cc[0] - a[0])
            if o != 0:
                w = F(abs(o), 2)
                self.areal.append((w, w * F(a[0] + b[0] + cc[0], 3), w * F(a[1] + b[1] + cc[1], 3)))
            elif a == b == cc:
                self.pts.append((a, 1, 1))
            else:
                self.segs_of([a, b, cc, a])
        elif t == "GeometryCollection":
            for m in c:
                self.walk(m)
        else:
            raise ValueError(t)


def reference(g):
    acc = Acc()
    acc.walk(g)
    if acc.ood:
        return "ood", []
    if acc.areal:
        w = sum(x[0] for x in acc.areal)
        return 2, [(sum(x[1] for x in acc.areal) / w, sum(x[2] for x in acc.areal) / w)]
    if acc.segs:
        L = SX = SY = Decimal(0)
        for p, q in acc.segs:
            d = Decimal((q[0] - p[0]) ** 2 + (q[1] - p[1]) ** 2).sqrt()
            L += d
            SX += d * Decimal(p[0] + q[0]) / 2
            SY += d * Decimal(p[1] + q[1]) / 2
        return 1, [(SX / L, SY / L)]
    if acc.pts:
        outs = []
        combos = 1
        for _, lo, hi in acc.pts:
            combos *= hi - lo + 1
        if combos > 4096:  # same rule as the Rust side: only the one-per-member mean is listed
            acc.pts = [(q, lo, lo) for q, lo, hi in acc.pts]

        def rec(i, n, sx, sy):
            if i == len(acc.pts):
                outs.append((F(sx, n), F(sy, n)))
                return
            p, lo, hi = acc.pts[i]
            for m in range(lo, hi + 1):
                rec(i + 1, n + m, sx + m * p[0], sy + m * p[1])

        rec(0, 0, 0, 0)
        return 0, outs
    return -1, []


def main():
    n = bad = 0
    dims = {}
    for line in open(sys.argv[1]):
        rec = json.loads(line)
        n += 1
        d, exp = reference(rec["g"])
        dims[d] = dims.get(d, 0) + 1
        if d == "ood":
            if not rec.get("ood"):
                bad += 1
                print("MISMATCH ood", line[:300])
            continue
        if rec.get("ood") or d != rec["dim"]:
            bad += 1
            print("MISMATCH dim", d, rec["dim"], line[:300])
            continue
        bx, by = rec["base"]
        theirs = rec["expected_rel_base"]
        mine = sorted((float(x - bx), float(y - by)) for x, y in exp)
        theirs = sorted(tuple(t) for t in theirs)
        scale = max([1.0] + [abs(v) for t in theirs for v in t])
        ok = len(mine) == len(theirs) and all(abs(a[0] - b[0]) <= 1e-13 * scale and abs(a[1] - b[1]) <= 1e-13 * scale for a, b in zip(mine, theirs))
        if not ok:
            bad += 1
            print("MISMATCH value", mine[:3], theirs[:3], line[:300])
    print(f"cross-checked {n} cases, dominant dimensions {dims}, mismatches {bad}")
    sys.exit(1 if bad else 0)


if __name__ == "__main__":
    main()
