"""Sanitizer / interpreter / process-matrix legs and replay (DESIGN §2.4)."""
import json, os, subprocess


def replay(pid, path, gvh):
    p = subprocess.run([gvh, "replay", path])
    return 1 if p.returncode == 1 else (0 if p.returncode == 0 else 2)


def run_leg(leg, pid, tier, seed, rundir, gvh, root):
    fn = globals().get("leg_" + leg["kind"])
    if fn is None:
        return {"leg": leg, "problems": [{"shard": -1, "kind": "leg-unavailable", "detail": f"unknown leg {leg['kind']}"}]}
    return fn(leg, pid, tier, seed, rundir, gvh, root)
