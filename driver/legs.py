"""Sanitizer / interpreter / process-matrix legs and replay (DESIGN §2.4).

Every leg returns a report dict: {"leg", "evaluations", "distinct_nontrivial", "violations": [...],
"problems": [...], "samples": [...], ...}. A leg that cannot run (tool missing, build failure, watchdog)
reports a problem of kind "leg-unavailable"/"leg-timeout" — that makes the run inconclusive, never a
violation and never a silent pass.
"""
import json, os, subprocess, time, hashlib, re

_ROOT = os.path.dirname(os.path.dirname(os.path.abspath(__file__)))
HARNESS = os.path.join(_ROOT, "harness")
BUILD = os.path.join(_ROOT, ".build")
CFG = "--cfg georust_geo_verif"
TARGET = "x86_64-unknown-linux-gnu"


def replay(pid, path, gvh):
    p = subprocess.run([gvh, "replay", path])
    return 1 if p.returncode == 1 else (0 if p.returncode == 0 else 2)


def run_leg(leg, pid, tier, seed, rundir, gvh, root):
    fn = globals().get("leg_" + leg["kind"])
    if fn is None:
        return {"leg": leg, "problems": [{"shard": -1, "kind": "leg-unavailable", "detail": f"unknown leg {leg['kind']}"}]}
    t = time.time()
    try:
        rep = fn(leg, pid, tier, seed, rundir, gvh, root)
    except subprocess.TimeoutExpired as e:
        rep = {"problems": [{"shard": -1, "kind": "leg-timeout", "detail": f"{leg['kind']}: {e}"}]}
    rep["leg"] = leg["kind"]
    rep["wall_s"] = round(time.time() - t, 1)
    return rep


def _env(extra=None, rustflags=""):
    e = dict(os.environ, CARGO_NET_OFFLINE="true", CARGO_TERM_COLOR="never", RUSTFLAGS=(CFG + " " + rustflags).strip())
    if extra:
        e.update(extra)
    return e


def _unavailable(what, detail):
    return {"problems": [{"shard": -1, "kind": "leg-unavailable", "detail": f"{what}: {detail[-1500:]}"}]}


# --------------------------------------------------------------------------- C20: process x thread-count matrix
def leg_procmatrix(leg, pid, tier, seed, rundir, gvh, root):
    threads = leg.get("threads", [1, 2, 3, 7, 16])
    seeds = [seed * 101 + i for i in range(leg.get("seeds", 2))]
    scale = leg.get("scale", 1)
    logs, violations, lines_total, names = {}, [], 0, set()
    for s in seeds:
        per = {}
        procs = []
        for t in threads + ["default"]:
            env = dict(os.environ)
            if t != "default":
                env["RAYON_NUM_THREADS"] = str(t)
            # every process calls the ops in a different order (call history must not matter); the first one in list order
            order = 0 if t == threads[0] else (threads + ["default"]).index(t)
            procs.append((t, subprocess.Popen([gvh, "digest-run", "--seed", str(s), "--scale", str(scale), "--repeat", "2", "--order", str(order)], stdout=subprocess.PIPE, stderr=subprocess.PIPE, env=env, text=True)))
        for t, p in procs:
            out, err = p.communicate(timeout=leg.get("timeout", 1800))
            if p.returncode != 0:
                return {"problems": [{"shard": -1, "kind": "exit" if p.returncode > 0 else "signal", "code": p.returncode, "detail": f"digest-run threads={t} seed={s}: {err[-800:]}"}]}
            per[t] = [l for l in out.splitlines() if l and not l.startswith("#")]
            lines_total += len(per[t])
        ref_t = threads[0]
        ref = per[ref_t]
        refmap = {}
        for l in ref[::2]:
            refmap[l.split()[0]] = l
        for t, lines in per.items():
            if len(lines) != len(ref):
                violations.append({"property": pid, "check": "process_matrix.length", "sig": "process_matrix.length|digest-run|-", "expected": len(ref), "got": len(lines), "ops_seed": s, "threads": t})
                continue
            for b in lines[::2]:
                name = b.split()[0]
                names.add(name)
                a = refmap.get(name)
                if a != b:
                    base = name.split(".")[0]
                    violations.append({"property": pid, "check": "process_matrix.digest", "sig": f"process_matrix.digest|{base}|-", "op": name, "expected": f"{a} (RAYON_NUM_THREADS={ref_t}, list order)", "got": f"{b} (RAYON_NUM_THREADS={t}, shuffled call order)", "ops_seed": s, "scale": scale, "replay_cmd": f"{gvh} digest-run --seed {s} --scale {scale}"})
        # two consecutive lines of one process are the two in-process repeats
        for t, lines in per.items():
            for i in range(0, len(lines) - 1, 2):
                if lines[i] != lines[i + 1]:
                    base = lines[i].split()[0].split(".")[0]
                    violations.append({"property": pid, "check": "process_matrix.repeat", "sig": f"process_matrix.repeat|{base}|-", "op": lines[i].split()[0], "expected": lines[i], "got": lines[i + 1], "ops_seed": s, "scale": scale, "threads": t})
        logs[s] = {str(t): hashlib.sha1("\n".join(sorted(l)).encode()).hexdigest()[:12] for t, l in per.items()}
    # keep one example per signature
    seen, keep = set(), []
    for v in violations:
        if v["sig"] not in seen:
            seen.add(v["sig"])
            keep.append(v)
    return {"evaluations": lines_total, "distinct_nontrivial": len(names) * len(seeds), "violations": keep, "n_violations": len(violations),
            "processes": len(seeds) * (len(threads) + 1), "threads_tried": threads + ["default"], "log_digests": logs, "scale": scale,
            "samples": [{"kind": "process matrix", "seeds": seeds, "threads": threads, "ops_per_process": len(names)}]}


# --------------------------------------------------------------------------- sanitizer builds
def _build(profile_dir, rustflags, extra_args, timeout=1800):
    tdir = os.path.join(BUILD, profile_dir)
    cmd = ["cargo", "+nightly", "build", "--release", "--offline", "--target", TARGET, "--target-dir", tdir] + extra_args
    p = subprocess.run(cmd, cwd=HARNESS, env=_env(rustflags=rustflags), stdout=subprocess.PIPE, stderr=subprocess.STDOUT, text=True, timeout=timeout)
    exe = os.path.join(tdir, TARGET, "release", "gvh")
    if p.returncode != 0 or not os.path.exists(exe):
        return None, p.stdout
    return exe, ""


def leg_tsan(leg, pid, tier, seed, rundir, gvh, root):
    exe, err = _build("tsan", "-Zsanitizer=thread", ["-Zbuild-std"])
    if not exe:
        return _unavailable("tsan build", err)
    violations, evals, reports = [], 0, 0
    for t in leg.get("threads", [16, 3]):
        env = dict(os.environ, RAYON_NUM_THREADS=str(t), TSAN_OPTIONS="halt_on_error=0 exitcode=66 report_signal_unsafe=0")
        p = subprocess.run([exe, "digest-run", "--seed", str(seed), "--scale", str(leg.get("scale", 2))], stdout=subprocess.PIPE, stderr=subprocess.PIPE, env=env, text=True, timeout=leg.get("timeout", 3600))
        evals += len([l for l in p.stdout.splitlines() if l and not l.startswith("#")])
        n = p.stderr.count("WARNING: ThreadSanitizer")
        reports += n
        if n or p.returncode == 66:
            first = p.stderr[p.stderr.find("WARNING: ThreadSanitizer"):][:3000]
            m = re.search(r"#\d+ (\S*geo\S*)", first)
            violations.append({"property": pid, "check": "tsan.report", "sig": f"tsan.data_race|{m.group(1) if m else 'unknown'}|-", "expected": "no ThreadSanitizer report", "got": first, "threads": t})
        elif p.returncode != 0:
            return {"problems": [{"shard": -1, "kind": "exit", "code": p.returncode, "detail": p.stderr[-800:]}]}
    return {"evaluations": evals, "violations": violations, "tsan_reports": reports, "threads_tried": leg.get("threads", [16, 3]), "samples": [{"kind": "tsan digest-run", "scale": leg.get("scale", 2)}]}


def leg_asan(leg, pid, tier, seed, rundir, gvh, root):
    exe, err = _build("asan", "-Zsanitizer=address -Cforce-frame-pointers=yes", [])
    if not exe:
        return _unavailable("asan build", err)
    violations, evals = [], 0
    n = leg.get("shards", 4)
    procs = []
    for i in range(n):
        out = os.path.join(rundir, f"asan_{i}.json")
        env = dict(os.environ, ASAN_OPTIONS="halt_on_error=1 abort_on_error=0 detect_leaks=0 exitcode=77")
        procs.append((i, out, subprocess.Popen([exe, "run", pid, "--seed", str(seed + 7), "--shard", str(i), "--nshards", str(n), "--tier", "quick", "--budget", str(leg["budget"]), "--out", out], stdout=subprocess.PIPE, stderr=subprocess.PIPE, env=env, text=True, cwd=rundir)))
    for i, out, p in procs:
        so, se = p.communicate(timeout=leg.get("timeout", 3600))
        if "ERROR: AddressSanitizer" in se or p.returncode == 77:
            first = se[se.find("ERROR: AddressSanitizer"):][:3000]
            m = re.search(r"#\d+ \S+ in (\S*geo\S*)", first)
            violations.append({"property": pid, "check": "asan.report", "sig": f"asan.report|{m.group(1) if m else 'unknown'}|-", "expected": "no AddressSanitizer report", "got": first, "shard": i})
            continue
        if p.returncode != 0 or not os.path.exists(out):
            return {"problems": [{"shard": i, "kind": "exit", "code": p.returncode, "detail": se[-800:]}]}
        d = json.load(open(out))
        evals += d["evaluations"]
        # the oracle watches the same executions: its verdicts count too
        for v in d["violations"]:
            v["sig"] = v["sig"]
            violations.append(v)
    return {"evaluations": evals, "violations": violations, "asan_shards": n, "samples": [{"kind": "asan run", "budget_per_shard": leg["budget"]}]}


def leg_memcheck(leg, pid, tier, seed, rundir, gvh, root):
    if subprocess.run(["which", "valgrind"], stdout=subprocess.PIPE).returncode != 0:
        return _unavailable("valgrind", "not installed")
    cmd = ["valgrind", "--error-exitcode=99", "--undef-value-errors=yes", "--quiet", gvh] + leg["args"] + ["--seed", str(seed)]
    p = subprocess.run(cmd, stdout=subprocess.PIPE, stderr=subprocess.PIPE, text=True, timeout=leg.get("timeout", 3600), env=dict(os.environ, RAYON_NUM_THREADS=str(leg.get("threads", 3))))
    evals = len([l for l in p.stdout.splitlines() if l and not l.startswith("#")])
    if p.returncode == 99 or "uninitialised" in p.stderr:
        return {"evaluations": evals, "violations": [{"property": pid, "check": "memcheck.report", "sig": "memcheck.report|valgrind|-", "expected": "no memcheck error", "got": p.stderr[:3000]}]}
    if p.returncode != 0:
        return {"problems": [{"shard": -1, "kind": "exit", "code": p.returncode, "detail": p.stderr[-800:]}]}
    return {"evaluations": evals, "violations": [], "samples": [{"kind": "memcheck", "cmd": " ".join(cmd[5:])}]}


def leg_miri(leg, pid, tier, seed, rundir, gvh, root):
    """cargo +nightly miri run on a toy workload; parameters via argv, many interleaving seeds for pools."""
    # -Zmiri-deterministic-floats: by default Miri adds a random error of up to one ulp to float intrinsics (hypot, sin,
    # powi, ...) to flush out code that relies on their exactness; geo's documented arithmetic (and the oracles of the
    # monitors) do rely on e.g. hypot(3s,4s) == 5s, so under that mode the *oracle* fails on correct code. The Miri leg
    # is there for undefined behaviour, aliasing and data races; its float arithmetic must be the machine's.
    flags = "-Zmiri-disable-isolation -Zmiri-deterministic-floats " + leg.get("miriflags", "")
    seeds = leg.get("many_seeds")
    if seeds:
        flags += f" -Zmiri-many-seeds=0..{seeds}"
    # GVH_NO_LARGE: the interpreter is ~4 orders of magnitude slower than the machine; the strata of realistic size
    # (hundreds of coordinates with quadratic oracles) are left to the native shards and the ASan legs
    env = _env({"MIRIFLAGS": flags.strip(), "RAYON_NUM_THREADS": str(leg.get("threads", 1)), "GVH_NO_LARGE": "1"})
    out = os.path.join(rundir, "miri_out.json")
    args = [a.replace("{out}", out).replace("{seed}", str(seed)) for a in leg["args"]]
    cmd = ["cargo", "+nightly", "miri", "run", "--offline", "--target-dir", os.path.join(BUILD, "miri"), "--"] + args
    try:
        p = subprocess.run(cmd, cwd=HARNESS, env=env, stdout=subprocess.PIPE, stderr=subprocess.PIPE, text=True, timeout=leg.get("timeout", 5400))
    except subprocess.TimeoutExpired:
        # a wall-clock limit on an interpreter is no verdict about geo
        return _unavailable("miri", f"no result within {leg.get('timeout', 5400)} s (wall clock)")
    err = p.stderr
    ub = re.search(r"error: Undefined Behavior[^\n]*|error: .*data race[^\n]*|error: unsupported operation[^\n]*", err)
    if ub and "unsupported operation" in ub.group(0):
        return _unavailable("miri", ub.group(0) + err[-600:])
    if ub:
        frame = re.search(r"(geo[-\w]*/src/[\w/]+\.rs:\d+)", err[err.find(ub.group(0)):])
        return {"evaluations": 1, "violations": [{"property": pid, "check": "miri.report", "sig": f"miri.ub|{frame.group(1).split(':')[0] if frame else 'unknown'}|-", "expected": "no undefined behaviour / data race", "got": err[err.find(ub.group(0)):][:3000]}]}
    if p.returncode != 0:
        return {"problems": [{"shard": -1, "kind": "leg-unavailable", "detail": "miri run failed: " + err[-1200:]}]}
    evals = len([l for l in p.stdout.splitlines() if l and not l.startswith("#")])
    rep = {"evaluations": evals, "violations": [], "miri_seeds": seeds or 1, "samples": [{"kind": "miri", "args": args, "flags": flags}]}
    if os.path.exists(out):
        try:
            d = json.load(open(out))
            rep["evaluations"] = d["evaluations"]
            rep["violations"] = d["violations"]
        except Exception:
            pass
    return rep
