#!/usr/bin/env python3
"""Mutation self-test of the monitors (DESIGN §2.6).

usage: mutest.py <tag> <mutants.json>
  tag           scratch tag created with driver/mk_scratch.sh (worktree /tmp/geo-<tag>, harness /tmp/gvh-<tag>)
  mutants.json  [{"name":..., "file": "geo/src/...", "old": "...", "new": "...", "props": ["C14"], "budget": 4000}, ...]
For each mutant: apply to the scratch worktree, rebuild the scratch harness, run each listed monitor on
shards 0 and 1, report the number of violations (non-known), revert.
"""
import json, os, subprocess, sys

tag, mfile = sys.argv[1], sys.argv[2]
GEO, GVH = f"/tmp/geo-{tag}", f"/tmp/gvh-{tag}"
subprocess.run(["rsync", "-a", "--exclude", "target", "--exclude", "Cargo.toml", "--exclude", ".cargo", "/verif/harness/", GVH + "/"], check=True)
env = dict(os.environ, RUSTFLAGS="--cfg georust_geo_verif", CARGO_NET_OFFLINE="true")
known = set()
try:
    known = {f["id"] for f in json.load(open("/verif/known_findings.json"))["findings"] if f["status"] == "open"}
except Exception:
    pass
results = []
for m in json.load(open(mfile)):
    path = os.path.join(GEO, m["file"])
    src = open(path).read()
    if m["old"] not in src:
        print(f"[{m['name']}] pattern not found in {m['file']}")
        results.append((m["name"], "pattern-not-found"))
        continue
    open(path, "w").write(src.replace(m["old"], m["new"], 1))
    try:
        b = subprocess.run(["cargo", "build", "--release", "--offline"], cwd=GVH, env=env, stdout=subprocess.PIPE, stderr=subprocess.STDOUT, text=True)
        if b.returncode != 0:
            print(f"[{m['name']}] does not compile:\n" + "\n".join(b.stdout.splitlines()[-15:]))
            results.append((m["name"], "no-compile"))
            continue
        for prop in m["props"]:
            tot, sigs = 0, {}
            for shard in (0, 1):
                out = f"{GVH}/mut_out.json"
                if os.path.exists(out):
                    os.remove(out)
                p = subprocess.run([f"{GVH}/target/release/gvh", "run", prop, "--seed", "1", "--shard", str(shard), "--nshards", "16", "--tier", "quick", "--budget", str(m.get("budget", 4000)), "--out", out], stdout=subprocess.PIPE, stderr=subprocess.STDOUT, text=True, timeout=1800)
                if p.returncode != 0 or not os.path.exists(out):
                    tot += 1
                    sigs[f"shard crashed rc={p.returncode}"] = 1
                    continue
                d = json.load(open(out))
                for s, c in d["viol_sigs"].items():
                    if s.split("|")[-1] in known:
                        continue
                    tot += c
                    sigs[s] = sigs.get(s, 0) + c
            top = sorted(sigs.items(), key=lambda x: -x[1])[:3]
            print(f"[{m['name']}] {prop}: {'CAUGHT' if tot else 'MISSED'} violations={tot} {top}")
            results.append((m["name"], prop, tot))
    finally:
        open(path, "w").write(src)
print(json.dumps(results))
