#!/usr/bin/env python3
"""Regenerates MANIFEST.json from driver/props.py (the single source of per-property configuration)."""
import json, os, sys, subprocess
ROOT = os.path.dirname(os.path.dirname(os.path.abspath(__file__)))
sys.path.insert(0, os.path.join(ROOT, "driver"))
from props import PROPS
ALL = [json.loads(l) for l in open(os.path.join(ROOT, "properties.jsonl"))]
fix_commits = subprocess.run(["git", "-C", "/repo", "log", "--format=%h %s", "b5b9f860..HEAD"], stdout=subprocess.PIPE, text=True).stdout.strip().splitlines()
hook_commits = [l.split()[0] for l in fix_commits if l.split(" ", 1)[1].startswith("verif-hook:")]
TECH = {
 "C03": "runtime monitoring: observed orient2d / point-location answers judged by a pure integer oracle on the bit patterns of the f64 inputs (common power-of-two scaling, i128 determinants), adversarial near-degenerate generators; integer coordinate types judged where the products fit",
 "C01": "runtime monitoring: every observed relate() matrix judged by an exact i128 arrangement DE-9IM oracle; metamorphic monitors (transpose, concrete entry point, re-spellings, sheared lattice); fixed-witness monitor for recorded findings; Miri leg on the same workload",
 "C02": "runtime monitoring: observed Intersects/Contains/Within/coordinate_position answers judged against the exact DE-9IM oracle and against the geometry's own relate(); every type-pair dispatch path counted in evidence",
 "C04": "runtime monitoring: observed BooleanOps / unary_union outputs judged by an exact point-membership oracle on quarter-lattice sample points of both operands' arrangement, by area bookkeeping (|A|+|B| = |A∩B|+|A∪B|, difference and xor identities, within a derived bound) and by ring closure / winding of the result; hooked fill-rule probe",
 "C06": "runtime monitoring: observed centroids judged against an exact rational centre-of-mass oracle with a rounding bound derived from the input's conditioning; dimension-selection monitor on mixed collections",
 "C07": "runtime monitoring: observed Euclidean distances judged against an exact rational minimum-distance oracle (squared distance as i128 rational), symmetric and per-type-pair; containment and nearest-neighbour branches hooked",
 "C08": "runtime monitoring: observed hulls judged by exact integer convexity, containment and minimality oracles; bit-exact emulation of the pinned quick-hull separates the recorded finding from any other deviation; CPU-time hang watchdog",
 "C09": "runtime monitoring: observed simplifications judged for subsequence, end points and exact tolerance (i128 point-segment distance / triangle area on the lattice pre-image) for RDP, RDP-idx, VW, VW-idx and VW-preserve; unbalanced-recursion stress inputs; CPU-time hang watchdog",
 "C10": "runtime monitoring: observed triangulations / monotone pieces judged by exact area conservation, pairwise interior-disjointness and containment on the integer lattice; hooked monotone and stitch probes",
 "C12": "runtime monitoring: observed closest/interior points judged by exact on-geometry membership and exact minimality against the rational oracle; payload compared bit for bit where the property demands the input vertex",
 "C14": "runtime monitoring: observed is_valid / explain_invalidity judged against an exact OGC validity oracle on the lattice (both directions: accepts all valid, rejects all invalid) with error-kind and position checks",
 "C15": "runtime monitoring: observed interpolate / locate / densify / points_along_line results on the Euclidean metric space judged against an exact arc-length reference (integer-length lines exactly, general lines within a derived bound), round trip and monotonicity; extreme-scale hypot stratum; Miri leg with deterministic floats",
 "C16": "runtime monitoring: observed geodesic-family measures judged against each other (haversine vs geodesic vs rhumb bounds, destination/bearing/distance round trips) and against closed forms on meridians/equator; fixed-witness monitor",
 "C19": "runtime monitoring: observed coords_iter / map_coords / bounding_rect / extremes judged against a shadow traversal of the lattice pre-image, for every type and every re-spelling",
}
checks, na = [], []
for p in ALL:
    pid = p["id"]
    if pid not in PROPS:
        na.append({"property_id": pid, "reason": "check not built yet (work in progress; the design in DESIGN.md section 3 applies)"})
        continue
    c = PROPS[pid]
    checks.append({
        "property_id": pid,
        "quick_cmd": f"./check {pid} --tier quick",
        "thorough_cmd": f"./check {pid} --tier thorough",
        "evidence_file": f"/verif/evidence/{pid}.json",
        "replay_cmd_template": f"./check {pid} --replay {{path}}",
        "engine": "gvh",
        "level_claimed": {"category": "exploration", "text": c.get("level_text", "Runtime monitoring: the real geo code is executed on seeded hostile workloads and every observed result is judged by an independent exact oracle; the verdict covers the executions observed, nothing more."), "design_ref": f"DESIGN.md section 3, {pid}"},
        "level_note": c.get("level_note", "Trusted base: the harness's exact rational oracle (i128, checked), the generators' domain filter, rustc. Held-on-observed only; reach is what the generators produce."),
        "technique": c.get("technique", TECH.get(pid, "runtime monitoring: reference-model oracle over recorded call/return events")),
    })
m = {
    "version": 1,
    "setup_cmd": "./check --setup",
    "hooks": {
        "guard": "--cfg georust_geo_verif",
        "enable": "RUSTFLAGS='--cfg georust_geo_verif' cargo build --release --offline (done by ./check; path dependencies on /repo/geo and /repo/geo-types)",
        "baseline_off_cmd": "cd /repo && cargo test --workspace --no-fail-fast --offline",
        "source_commits": hook_commits,
        "add_only": True,
    },
    "engines": [{"name": "gvh", "path": "/verif/harness", "serves_properties": sorted(PROPS.keys()), "kind_free_text": "Rust harness linking /repo/geo by path: seeded workload generators, exact oracles, monitors; python3 driver ./check shards it over 16 processes, runs sanitizer/interpreter legs and writes evidence"}],
    "checks": checks,
    "not_applicable": na,
    "notes": "Technique family: runtime monitoring and sanitizers. fix: commits in /repo: " + "; ".join(l for l in fix_commits if " fix:" in l),
}
json.dump(m, open(os.path.join(ROOT, "MANIFEST.json"), "w"), indent=1)
print("checks:", len(checks), "not_applicable:", len(na))
