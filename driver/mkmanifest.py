#!/usr/bin/env python3
"""Regenerates MANIFEST.json from driver/props.py (the single source of per-property configuration)."""
import json, os, sys, subprocess
ROOT = os.path.dirname(os.path.dirname(os.path.abspath(__file__)))
sys.path.insert(0, os.path.join(ROOT, "driver"))
from props import PROPS
ALL = [json.loads(l) for l in open(os.path.join(ROOT, "properties.jsonl"))]
fix_commits = subprocess.run(["git", "-C", "/repo", "log", "--format=%h %s", "b5b9f860..HEAD"], stdout=subprocess.PIPE, text=True).stdout.strip().splitlines()
hook_commits = [l.split()[0] for l in fix_commits if l.split(" ", 1)[1].startswith("verif-hook:")]
checks, na = [], []
for p in ALL:
    pid = p["id"]
    if pid not in PROPS:
        na.append({"property_id": pid, "reason": "check not built yet (work in progress; the design in DESIGN.md section 3 applies)"})
        continue
    c = PROPS[pid]
    checks.append({
        "property_id": pid,
        "quick_cmd": f"./check {pid} --tier quick",
        "thorough_cmd": f"./check {pid} --tier thorough",
        "evidence_file": f"/verif/evidence/{pid}.json",
        "replay_cmd_template": f"./check {pid} --replay {{path}}",
        "engine": "gvh",
        "level_claimed": {"category": "exploration", "text": c.get("level_text", "Runtime monitoring: the real geo code is executed on seeded hostile workloads and every observed result is judged by an independent exact oracle; the verdict covers the executions observed, nothing more."), "design_ref": f"DESIGN.md section 3, {pid}"},
        "level_note": c.get("level_note", "Trusted base: the harness's exact rational oracle (i128, checked), the generators' domain filter, rustc. Held-on-observed only; reach is what the generators produce."),
        "technique": c.get("technique", "runtime monitoring: reference-model oracle over recorded call/return events"),
    })
m = {
    "version": 1,
    "setup_cmd": "./check --setup",
    "hooks": {
        "guard": "--cfg georust_geo_verif",
        "enable": "RUSTFLAGS='--cfg georust_geo_verif' cargo build --release --offline (done by ./check; path dependencies on /repo/geo and /repo/geo-types)",
        "baseline_off_cmd": "cd /repo && cargo test --workspace --no-fail-fast --offline",
        "source_commits": hook_commits,
        "add_only": True,
    },
    "engines": [{"name": "gvh", "path": "/verif/harness", "serves_properties": sorted(PROPS.keys()), "kind_free_text": "Rust harness linking /repo/geo by path: seeded workload generators, exact oracles, monitors; python3 driver ./check shards it over 16 processes, runs sanitizer/interpreter legs and writes evidence"}],
    "checks": checks,
    "not_applicable": na,
    "notes": "Technique family: runtime monitoring and sanitizers. fix: commits in /repo: " + "; ".join(l for l in fix_commits if " fix:" in l),
}
json.dump(m, open(os.path.join(ROOT, "MANIFEST.json"), "w"), indent=1)
print("checks:", len(checks), "not_applicable:", len(na))
