#!/bin/bash
# usage: mk_scratch.sh <tag>   -> scratch worktree of /repo at /tmp/geo-<tag> and a harness copy at /tmp/gvh-<tag> linked to it
set -e
T=$1
git -C /repo worktree add --detach /tmp/geo-$T HEAD >/dev/null 2>&1
mkdir -p /tmp/gvh-$T
rsync -a --exclude target /verif/harness/ /tmp/gvh-$T/
sed -i "s#/repo/#/tmp/geo-$T/#g" /tmp/gvh-$T/Cargo.toml
sed -i "s#/verif/.build/target#/tmp/gvh-$T/target#" /tmp/gvh-$T/.cargo/config.toml
echo "/tmp/geo-$T /tmp/gvh-$T"
