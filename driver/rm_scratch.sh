#!/bin/bash
# usage: rm_scratch.sh <tag>
T=$1
git -C /repo worktree remove --force /tmp/geo-$T 2>/dev/null
rm -rf /tmp/geo-$T /tmp/gvh-$T
git -C /repo worktree prune
