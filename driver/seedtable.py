#!/usr/bin/env python3
"""Writes /verif/seeded/README.md: one row per independently seeded breaking change and which checks caught it."""
import json, glob, os
rows = []
for d in sorted(glob.glob("/verif/seeded/*/")):
    name = os.path.basename(d.rstrip("/"))
    m = json.load(open(d + "meta.json"))
    det = m.get("detection_repo_quick") or m.get("detection_scratch_quick") or {}
    caught = [p for p, v in det.items() if isinstance(v, dict) and v.get("caught")]
    missed = [p for p, v in det.items() if isinstance(v, dict) and not v.get("caught")]
    top = ""
    tgt = m.get("property", name.split("-")[0])
    if tgt in det and isinstance(det[tgt], dict) and det[tgt].get("top_signatures"):
        top = det[tgt]["top_signatures"][0][0]
    what = (m.get("title") or m.get("what_it_breaks") or "").replace("|", "/").replace("\n", " ")[:170]
    needs = str(m.get("needs_to_manifest", "")).replace("|", "/").replace("\n", " ")[:200]
    rows.append((name, tgt, what, needs, ", ".join(caught) or "—", ", ".join(missed) or "", top.replace("|", " / "), m.get("strengthened", "")))
out = ["# Independently seeded breaking changes", "",
       "Each directory holds `patch.diff` (apply with `git -C /repo apply`), `demo_test.rs` (fails with the patch, passes without) and `meta.json` (what it breaks, what it needs to manifest, what we ran and what fired). Written by fresh sub-agents that saw only the property text and a scratch worktree; confirmed by `driver/seedeval.py`.", "",
       "| change | property | what it breaks | needs | caught by (quick) | also run, silent | first signature of the target check | note |", "|---|---|---|---|---|---|---|---|"]
for r in rows:
    out.append("| " + " | ".join(r) + " |")
open("/verif/seeded/README.md", "w").write("\n".join(out) + "\n")
print(len(rows), "rows")

# compact table for DESIGN.md section 8 (between the markers)
comp = ["| change | site and effect (as written by the seeding agent) | caught by | first signature | note |", "|---|---|---|---|---|"]
for r in rows:
    comp.append(f"| {r[0]} | {r[2][:150]} | {r[4]} | `{r[6][:70]}` | {r[7]} |")
dp = "/verif/DESIGN.md"
d = open(dp).read()
b, e = "<!-- seeded-table-begin -->", "<!-- seeded-table-end -->"
if b in d and e in d:
    d = d[:d.index(b) + len(b)] + "\n" + "\n".join(comp) + "\n" + d[d.index(e):]
    open(dp, "w").write(d)
    print("DESIGN.md table updated")
