#!/usr/bin/env python3
"""Regenerates the table of open findings in DESIGN.md section 7.2 from known_findings.json."""
import json
s = open("/verif/DESIGN.md").read()
k = json.load(open("/verif/known_findings.json"))
rows = ["| id | property | what (witness) | why not repaired |", "|---|---|---|---|"]
for f in k["findings"]:
    if f.get("status") != "open":
        continue
    w = f.get("witness", {})
    wit = (" — witness: " + "; ".join(f"{a} {b}" for a, b in w.items() if a in ("geometry", "a", "b", "p", "q", "call", "input", "expected", "got"))[:330]) if w else ""
    rows.append(f"| `{f['id']}` | {', '.join(f['properties'])} | {f['what'][:520].replace('|', '/')}{wit.replace('|', '/')} | {f['why_not_fixed'][:330].replace('|', '/')} |")
b, e = "<!-- findings-table-begin -->", "<!-- findings-table-end -->"
s = s[: s.index(b) + len(b)] + "\n" + "\n".join(rows) + "\n" + s[s.index(e):]
open("/verif/DESIGN.md", "w").write(s)
print(len(rows) - 2, "open findings")
