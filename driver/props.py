"""Per-property configuration of the monitors: shard budgets (in cases, per shard), legs, evidence rule."""

DOMAIN = "inputs generated on an exactly representable dyadic lattice (offset up to 2^40, scale 2^-30..2^30); oracle = exact i128 rational arrangement (harness/src/model.rs), independent of geo"

PROPS = {
    "C01": {
        "budget": {"quick": 12000, "thorough": 250000},
        "rule": "seeded lattice geometry pairs over 18 generator kinds (all 10 types + Geometry + GeometryCollection), partner derived from the first operand half of the time; every relate() result is compared with the exact arrangement DE-9IM oracle, with the transpose, the concrete-type entry point and every respelling of either operand. Non-trivial = oracle says the operands touch/overlap or a coincidence class (shared vertex, vertex on edge, collinear overlap, nested envelopes, mod-2 end points, hole touching shell) is present; distinct = distinct (A,B) lattice preimages (FNV digest), merged over shards.",
        "assumptions": [DOMAIN, "operands restricted to <= 90 segments so that the O(n^2) exact oracle stays cheap"],
        "min_nontrivial": {"quick": 1000, "thorough": 10000},
    },
    "C02": {
        "budget": {"quick": 4000, "thorough": 80000},
        "rule": "same generator as C01; intersects / contains / is_within through the Geometry enum and through every concrete (Self,Rhs) impl, in both operand orders, judged against the documented masks applied to the ORACLE's matrix; coordinate_position / intersects(Coord|Point) / contains(Coord|Point) / is_within judged against the exact location of query coordinates drawn from vertices, lattice points on edges, neighbours. Non-trivial = operands intersect or share a coincidence class / query coordinate not in the exterior; distinct by input digest.",
        "assumptions": [DOMAIN],
        "min_nontrivial": {"quick": 1000, "thorough": 10000},
    },
    "C17": {
        "budget": {"quick": 1500, "thorough": 40000},
        "rule": "one case = one recorded history: a PreparedGeometry (owned, from the Geometry enum) reused for 10-60 (thorough: up to 300) relate calls against a pool of 2-8 partners derived from it (plus itself), operand position random, partner given as plain enum / plain concrete type / freshly prepared (owned, borrowed, from the concrete type), clone() of the prepared geometry interleaved; every response is compared with the sequential model (plain relate on the underlying geometries) and with the response the same request got earlier in the history. Non-trivial = history with >= 2 responses in which the operands intersect; distinct by digest of (prepared geometry, pool, length).",
        "assumptions": [DOMAIN, "the sequential model (plain relate) is judged against the exact oracle by C01, not here"],
        "min_nontrivial": {"quick": 500, "thorough": 5000},
        "technique": "runtime monitoring: recorded call/return histories checked against a sequential model (plain relate) and for response stability",
    },
}
