"""Per-property configuration of the monitors: shard budgets (in cases, per shard), legs, evidence rule."""

DOMAIN = 'inputs generated on an exactly representable dyadic lattice (offset up to 2^40, scale 2^-30..2^30); oracle = exact i128 rational arrangement (harness/src/model.rs), independent of geo'

PROPS = {
    'C01': {'required_probes': ['relate.disjoint_envelope_shortcut',
                         'relate.label_isolated_edge',
                         'relate.label_isolated_node',
                         'relate.proper_intersection',
                         'relate.proper_interior_intersection',
                         'relate.boundary_mod2.count_ge2'],
     'budget': {'quick': 12000, 'thorough': 250000},
     'rule': 'seeded lattice geometry pairs over 18 generator kinds (all 10 types + Geometry + GeometryCollection), partner derived from the first operand half of '
             'the time; every relate() result is compared with the exact arrangement DE-9IM oracle, with the transpose, the concrete-type entry point and every '
             'respelling of either operand. Non-trivial = oracle says the operands touch/overlap or a coincidence class (shared vertex, vertex on edge, collinear '
             'overlap, nested envelopes, mod-2 end points, hole touching shell) is present; distinct = distinct (A,B) lattice preimages (FNV digest), merged over '
             'shards.',
     'assumptions': ['inputs generated on an exactly representable dyadic lattice (offset up to 2^40, scale 2^-30..2^30); oracle = exact i128 rational arrangement '
                     '(harness/src/model.rs), independent of geo',
                     'operands restricted to <= 90 segments so that the O(n^2) exact oracle stays cheap'],
     'min_nontrivial': {'quick': 1000, 'thorough': 10000}},
    'C02': {'required_probes': ['coordpos.ring.on_boundary_shortcircuit', 'relate.label_isolated_node'],
     'budget': {'quick': 10000, 'thorough': 100000},
     'rule': 'same generator as C01; intersects / contains / is_within through the Geometry enum and through every concrete (Self,Rhs) impl, in both operand '
             "orders, judged against the documented masks applied to the ORACLE's matrix; coordinate_position / intersects(Coord|Point) / contains(Coord|Point) / "
             'is_within judged against the exact location of query coordinates drawn from vertices, lattice points on edges, neighbours. Non-trivial = operands '
             'intersect or share a coincidence class / query coordinate not in the exterior; distinct by input digest.',
     'assumptions': ['inputs generated on an exactly representable dyadic lattice (offset up to 2^40, scale 2^-30..2^30); oracle = exact i128 rational arrangement '
                     '(harness/src/model.rs), independent of geo'],
     'min_nontrivial': {'quick': 1000, 'thorough': 10000}},
    'C03': {'budget': {'quick': 350000, 'thorough': 4000000},
     'rule': 'A case is a pure function of (seed, shard, k): one scalar type (f64 55 %, f32 15 %, i64 15 %, i32 10 %, i16 5 %) and one shape - point triple, 5x5 '
             'ulp neighbourhood of a triple (25 sub-cases), vector pair (dot sign), segment pair, triangle + query, polygon (0-2 holes) + query - drawn from '
             'ulp-adversarial families: exactly collinear lattice triples with coordinates up to 2^52 (2^24 for f32, up to the no-overflow bound for the integer '
             "types, translated to the type limits) moved by 1-3 ulps / units; Shewchuk's (0.5+i*2^-53, 0.5+j*2^-53) against anchors on y=x; query points computed "
             'with rounding onto full-mantissa segments / triangle edges / polygon edges and moved by 0-2 ulps; mixed-exponent dyadic coordinates; nearly '
             'parallel, end-touching, collinear-overlapping and point-like segments; sliver triangles; valid small-lattice polygons carried by exact (nearly '
             'singular, shearing, axis-scaling) integer affine maps to 52-bit coordinates with vertices moved by an ulp when the exact validity test still passes; '
             '40 % of float cases times a common power of two 2^E (set bits kept within exponents [-400, 462)). Every result of orient2d (Ker and '
             'RobustKernel/SimpleKernel, all 6 argument orders), dot_product_sign, Line.intersects(Coord|Point) (+reversed, symmetric impl), '
             'Line.coordinate_position, Line.intersects(Line) (+swapped, reversed, Geometry enum), line_intersection kind, winding_order/is_cw/is_ccw (+reversed, '
             'rotated rings), triangle_winding_order, coord_pos_relative_to_ring (+reversed, rotated), Polygon/Triangle coordinate_position (+Geometry enum, '
             'Triangle::new, rotated/reversed vertex order), Polygon/Triangle contains/intersects(Coord|Point) and LineString.intersects(Coord) is compared for '
             "equality with an i128 reference evaluated on the coordinates' exact integer images (common power-of-two scaling, < 2^60; no tolerance anywhere). "
             'Non-trivial = at least one orientation decision the code has to take in the case (the triple itself; the 4 end-point tests of a segment pair; the 3 '
             'edge tests of a triangle; every ring edge whose y-range contains the query) is exactly collinear on non-coincident points, or lies below the reach '
             'of a static f64 filter (|det| * 2^48 <= |left product| + |right product|), or the case is a 5x5 ulp neighbourhood; distinct = distinct FNV digest of '
             '(type, shape, ring layout, coordinate bit patterns), merged over shards.',
     'assumptions': ['float inputs are finite and every set bit of every coordinate lies within binary exponents [-400, 462) so that no product or error term of '
                     'the adaptive predicate under- or overflows (outside: recorded known finding orient2d_underflow, replayed as a fixed witness every run)',
                     'all coordinates of one case fit 60 bits after multiplication by one common power of two (the i128 reference; generator keeps 58) - wider '
                     'exponent spreads are not monitored in-process',
                     'integer scalar types: 2*D^2 <= T::MAX with D the largest coordinate difference in the case (every intermediate difference, product and sum '
                     'of two products fits the type); dot_product_sign: D = 2*max|component|',
                     "rings are simple and polygons valid by the harness's exact integer test; triangles are non-degenerate (degenerate ones are exercised "
                     'observe-only)'],
     'min_nontrivial': {'quick': 100000, 'thorough': 1000000}},
    'C04': {'required_probes': ['bool_ops.unary_union.fill_rule_clockwise'],
     'budget': {'quick': 8000, 'thorough': 150000},
     'rule': 'three case kinds: (pair, 6 of 8) two valid lattice (multi)polygons with holes, partner derived from the first operand (identical, translated, '
             'edge-sharing, nested, touching, empty), either ring winding, one case in five with repeated vertices incl. a repeated closing vertex; all four '
             'operations through the named method, boolean_op and the Polygon impl; membership of every quarter-lattice sample point of the envelope (exactly '
             "classified by the operands' location functions; points on a boundary skipped) in the result by an even-odd crossing test on the result rings; the "
             'three area identities within 4·pos_tol·perimeter (pos_tol = extent·2^-25 + 4 ulp(M)); result rings closed, exterior ccw, holes cw. (unary_union, 1 '
             'of 8) 2-12 consistently wound, possibly overlapping polygons: region and area equal to the fold of pairwise unions and to the exact union of the '
             'location functions. (clip, 1 of 8) a simple (multi) line string through vertices / points on edges of the polygon: inside/outside lengths against '
             'the exact split of the line at the polygon boundary (boundary-running parts may go to either side), inside+outside = total, every returned piece on '
             'the required side within the snap allowance. Non-trivial = both operands non-empty / line meets the polygon; distinct by digest.',
     'assumptions': ['inputs generated on an exactly representable dyadic lattice (offset up to 2^40, scale 2^-30..2^30); oracle = exact i128 rational arrangement '
                     '(harness/src/model.rs), independent of geo',
                     'the sampling oracle needs sample points farther from every input boundary than the snapping tolerance: quarter-lattice points are at least '
                     '1/(4·edge length) lattice units away, the tolerance is below 2^-12 lattice units for every generated offset/scale'],
     'min_nontrivial': {'quick': 1000, 'thorough': 10000},
     'legs': {'thorough': [{'kind': 'asan', 'budget': 400, 'shards': 4}]}},
    'C05': {'budget': {'quick': 400000, 'thorough': 4500000},
     'rule': 'one case = one integer-lattice geometry mapped through an exact dyadic lattice (x = (ox+i)*2^sh; offsets 0, +-1e3, +-1e6, +-2^23, +-1e8, +-2^40, '
             '+-(2^52-4096) chosen independently per axis, 43% of the cases with an offset >= 1e8; sh = 0 or -30..30) and evaluated in every scalar type in which '
             'the lattice is exact (f64 always, f32 when |value| < 2^28 and <= 24 significant bits, i64 for winding/orient when sh = 0). Strata (per cent of '
             'cases): valid polygons with 0-3 holes on a 4..16 lattice (22; 1 in 10 from the shared generator with holes touching the shell), shells with 1-4 '
             'holes in grid cells (12), star-shaped polygons with 12..49-bit coordinates and a homothetic hole (8, thorough: up to 200 vertices), the same with '
             'mixed exponents 2^4..2^57 so that even the shift to the first vertex rounds (8), Rect (8), Triangle incl. slivers that need a robust orientation '
             'test (10), MultiPolygon incl. empty members, touching members and wide members (8), GeometryCollection incl. nested / mixed-dimension / wide members '
             '(8), Point/Line/LineString/MultiPoint/MultiLineString/empty (4), rings as LineString: simple, box with collinear vertices, collinear neighbours of '
             'the least vertex, repeated vertices, rings without area, open, self-crossing, slivers, wide, mixed exponents (12). Every polygon ring is re-spelled: '
             'every combination of ring directions (mask drawn uniformly), least vertex first(=closing)/last/second/random, repeated consecutive vertices 1 time '
             'in 4. Clauses judged per case: signed_area against the exact i128 shoelace (tolerance 16*n*u*(8E^2+S) twice-area units, E = extent after the shift), '
             'its sign, unsigned_area, Rect/Triangle against their polygon form, MultiPolygon/GeometryCollection against the exact sum and against the sum of '
             "geo's member results, zero area of the other kinds, all through the concrete type and the Geometry enum; winding_order / is_cw / is_ccw / points_cw "
             '/ points_ccw / make_*_winding / clone_to_winding_order of every ring (polygon rings included) against the sign of the exact area, None for rings '
             'without area; orient(Default|Reversed) of every Polygon and MultiPolygon: same rings as cyclic sequences, exterior ccw and holes cw by exact area '
             '(or the reverse). Non-trivial = the geometry has non-zero exact area, or is a closed simple ring (LineString); distinct = distinct FNV digest of '
             '(kind, absolute lattice coordinates, scale exponent), merged over shards.',
     'assumptions': ['inputs generated on an exactly representable dyadic lattice (|coordinate| < 2^58 with <= 53 significant bits, scale 2^-30..2^30); oracle = '
                     'exact checked i128 shoelace / orientation determinants / segment tests on the lattice preimage (harness/src/mon/c05.rs), independent of geo',
                     'polygons are valid (simple rings, holes inside the shell); winding_order is judged for rings that are simple after dropping repeated '
                     'consecutive vertices and for rings without area (expected None); open and self-crossing rings are observe-only',
                     'Triangle::signed_area is judged at the local extent of the triangle (22*16*u*E^2), like a ring, and against its polygon form',
                     'the sign clause is judged only when |exact area| exceeds the tolerance of the value clause',
                     'a geo call that does not return (e.g. winding_order after losing the `next == i` exit) is reported by an in-process hang detector as '
                     'violation hang|<kind>|- with the input as witness: 30 s without progress, confirmed by re-executing the same case in a helper thread for '
                     'another 30 s; the shard then ends and the counters of its earlier cases are not reported'],
     'min_nontrivial': {'quick': 2000000, 'thorough': 20000000},
     'technique': 'runtime monitoring: exact integer oracle over observed results of Area / Winding / Orient, metamorphic re-spelling of rings and types'},
    'C06': {'budget': {'quick': 500000, 'thorough': 7000000},
     'rule': 'one case = one lattice geometry g (a pure function of seed, shard, case index) drawn from four strata: (42 %) a GeometryCollection tree nested 1-4 '
             'deep (thorough: up to 6; empty-form leaves add two more levels) with 0-5 members per node whose effective dimensions follow one of 8 profiles (all '
             'mixed / only points and lines / only points / lines and areas / points and areas / only empties / empties and points), (46 %) a single geometry of '
             'any of the 9 other types with effective dimension 2, 1, 0 or empty, (8 %) such a geometry blown up by an odd factor up to 2^24+3 (moment products '
             'exceed 53 bits), (4 %, thorough 14 %) 20-400 coordinates. Leaves include valid polygons with 0-4 holes of either winding (plus zero-area / '
             'single-point / empty holes), Rect, Triangle (half of the cases handed to geo with clockwise corner order through the tuple constructor), '
             'MultiPolygon with members in disjoint cells, line strings with repeated coordinates and closed ones, and every degenerate form: flat / collinear / '
             'spike / hole-covered polygons, single-point rings of 1-4 coordinates, zero-width rects, collinear and single-point triangles, zero-length lines, '
             'line strings of 1-4 coincident coordinates, and 12 empty forms (empty LineString, Polygon with empty exterior with and without empty interiors, '
             'empty Multi*, Multi* of empties, empty and nested-empty collections). g is mapped through the exact lattice x = (ox + i)*2^sh with ox, oy in {0, '
             '+-1e3, +-1e8, +-2^40} and sh in [-30, 30]; centroid() is called on the concrete type and through the Geometry enum and judged against an exact '
             'reference built on the lattice preimage (i128 Green-form ring moments / exact mean / double-double length-weighted midpoints); then the same g is '
             'submitted at a second offset (translation clause), a second power-of-two scale and after multiplication of all coordinates by 3, 5, 6 or 7 (scaling '
             'clauses), and the result is tested against the exact convex hull of all coordinates. Non-trivial = the geometry is non-empty and its dominant '
             '(highest-dimensional, non-degenerate) part has at least two distinct coordinates, so that weights, dimension dominance and the shift all influence '
             'the answer; distinct = distinct FNV digests of (lattice geometry, ox, oy, sh), merged over shards.',
     'assumptions': ['inputs generated on an exactly representable dyadic lattice (offset up to 2^40, scale 2^-30..2^30, local coordinates below 2^29); reference '
                     '= exact integer / rational arithmetic on the lattice preimage, independent of geo (cross-checked against a second Python/Fraction '
                     'implementation: xcheck_c06.py)',
                     'f64 only (the statement does not mention other scalar types)',
                     'polygons are valid (simple rings, holes inside the shell, pairwise disjoint) or degenerate in the ways the statement lists; self-crossing '
                     'rings, holes larger than the shell, zero-area shells carrying non-empty holes are outside the domain (observe-only, never generated)',
                     "the statement does not say how often a member that collapsed to a point counts in 'the mean of the points': every such member counts once, "
                     'except a LineString of k >= 3 coincident coordinates, for which any multiplicity 1..k-1 is accepted (geo counts its k-1 zero-length '
                     'segments; a Polygon ring of the same coordinates counts once) - see REPORT.md (c) O1',
                     'tolerance u*(24*(m+2)*M*cond + 32*n*E*max(1,shape)) in lattice units: the M term (absolute coordinate magnitude) is unavoidable because geo '
                     'multiplies member centroids by their weights at absolute coordinates; the E term is local - see REPORT.md (b)',
                     'the pinned tree violates the property for 2-d Triangles with coordinates above ~9.5e7 (Triangle::unsigned_area is evaluated without a '
                     "shift): those violations are labelled with the class 'triangle_area_no_shift' and keep firing - see REPORT.md (c) D1"],
     'min_nontrivial': {'quick': 2000000, 'thorough': 20000000},
     'required_probes': ['centroid.dimension_replace', 'centroid.zero_area_fallback']},
    'C07': {'required_probes': ['distance.containment_branch', 'distance.nearest_neighbour'],
     'budget': {'quick': 20000, 'thorough': 150000},
     'rule': 'same pair generator as C01 (all type pairs, partner derived from the first operand half of the time, lattice offsets/scales); Euclidean.distance '
             'through the Geometry enum, through every concrete (A,B) impl, through the legacy EuclideanDistance trait, in both operand orders and for every '
             'respelling of either operand, judged against sqrt of the exact rational minimum squared distance over all primitive pairs (0 iff the exact models '
             'intersect, incl. containment) within 32·u·max(d, extent); symmetry / typing invariance within 4 ulps. Empty operands are observe-only. Non-trivial = '
             'at least one operand has linework; distinct by input digest.',
     'assumptions': ['inputs generated on an exactly representable dyadic lattice (offset up to 2^40, scale 2^-30..2^30); oracle = exact i128 rational arrangement '
                     '(harness/src/model.rs), independent of geo',
                     'empty operands are outside the statement (observe-only stratum)'],
     'min_nontrivial': {'quick': 1000, 'thorough': 10000},
     'legs': {'thorough': [{'kind': 'asan', 'budget': 1500, 'shards': 4}]}},
    'C08': {'budget': {'quick': 220000, 'thorough': 2000000},
     'rule': 'One case = (scalar type f64|f32|i32|i64, integer coordinate sequence, power-of-two scale for floats, container type), a pure function of (seed, '
             'shard, k). Strata: random multisets of 4-40 points on 3x3..8x8 lattices; points drawn from a few lattice lines; rows parallel to a chord (several '
             'points equally far from it); boundary of a convex lattice polygon with many points on its edges plus interior points; 3-5 points on 2x2/3x3 '
             '(trivial_hull path, max_idx special cases); Rect corners; degenerate (empty, 1-3 points, all identical, all collinear: observe-only); big '
             "coordinates (random, near a long chord, 'thin cap' = lattice points whose determinant against a long chord is 1..40, circle, several nearly equally "
             'far points on one ray from the lexicographic minimum) at magnitudes 2^24..2^53 (f64), 2^10..2^24 (f32), <=2^14 (i32), <=2^30 (i64, both without '
             'overflow of 2*d^2); n = 100..20000 points. Lattice strata are moved by offsets up to 2^52 / 2^24 / i32::MAX / 2^62, reflected/transposed, floats '
             'scaled by 2^-30..2^30. The same coordinates go to quick_hull, graham_hull(false), graham_hull(true) and, wrapped in one of 14 containers '
             '(MultiPoint, LineString, Polygon with interior rings, MultiLineString, MultiPolygon, GeometryCollection incl. nested, Geometry, &[Coord], [Coord;4], '
             '[Coord;6], Point, Line, Triangle, Rect), to ConvexHull::convex_hull and MinimumRotatedRect. Shard 0 additionally runs 7 fixed witnesses and the '
             'exhaustive sub-spaces (every sequence of 4/5 points on 3x3, of 5 points on 5x2 and 2x5; thorough: also 6 on 3x3, 5 on 4x4, 6 on 5x2). A case is '
             "NON-TRIVIAL iff the input has >= 3 non-collinear coordinates (the statement's domain), >= 4 distinct coordinates, and at least one input coordinate "
             'that must be discarded: a duplicate, a point on a hull edge, or an interior point. DISTINCT = distinct FNV digests of (scalar type, scale, '
             'coordinate sequence in input order); the container is not part of the digest.',
     'assumptions': ["Coordinates are integers times a power of two, exactly representable in the scalar type; every verdict about geo's output is taken on the "
                     'integer preimages with i128 determinants (exact).',
                     "Integer scalar types are exercised only where 2*d^2 (d = largest coordinate difference) fits the type, i.e. where geo's SimpleKernel "
                     'arithmetic cannot overflow (the statement: exact orientation decides).',
                     'Inputs with fewer than 3 non-collinear coordinates are observe-only: what geo returns is recorded in `classes`, panics and hangs are '
                     'violations, nothing else is judged.',
                     'minimum_rotated_rect tolerances are K*u*E with u the unit roundoff of the scalar type and E the largest |input coordinate|; f32 inputs with '
                     'E > 2^36 are observe-only (cubic centroid/area intermediates overflow f32).',
                     "graham_hull(.., true), IsConvex and 'minimum_rotated_rect has the smallest area' are not in the statement; they are judged against what "
                     "geo's own documentation promises (graham_on.*, isconvex.*, mrr.area_minimal) and can be switched off without touching the statement's "
                     'clauses.',
                     'A geo call that does not return within 10 s is a violation (hull.hang); the watchdog then writes the shard result and stops the shard.'],
     'min_nontrivial': {'quick': 1000000, 'thorough': 10000000}},
    'C09': {'budget': {'quick': 100000, 'thorough': 330000},
     'rule': 'one case = one seeded lattice geometry (LineString 45 %, MultiLineString 15 %, Polygon 25 %, MultiPolygon 15 %; parts of 0-3, 4-12, 13-50, 51-300 '
             'and 1000 (thorough: 1000-10000) vertices drawn from 13 vertex-sequence strata: small-grid random walks with repeats / collinear runs / '
             'back-tracking, uniform points on grids 1..2^20, points of one line in back-tracking order, equal-amplitude zig-zags (distance and area ties), '
             'strictly convex chains, spikes, lattice circles, monotone noise, decaying spikes, staircases, few distinct coordinates, axis-parallel power-of-two '
             'chords (exact distance ties), plus rings at the size limit (4, 5, 6 coordinates), degenerate rings of 0-3 coordinates, exact simple rings, valid '
             'polygons with holes, quadrilateral / pentagonal exteriors with small holes near a diagonal) mapped through a lattice offset (0, +-1000, 3e7, +-1e8, '
             '+-2^40) and scale 2^-30..2^30, evaluated at 5 tolerances: vertex-to-chord distances and triangle areas that occur IN THE INPUT, moved by 0, +-1, +-2 '
             'ulps, plus 0, -0, negative, -inf, 5e-324, 2^-1022, 1e-300, 1e300, f64::MAX, twice the extent (NaN / +inf observe-only). For every (geometry, eps) '
             'simplify, simplify_vw, simplify_vw_preserve (and simplify_idx, simplify_vw_idx for LineString) are called and every clause is judged on the integer '
             'preimage in i128: bitwise subsequence with first and last kept, member / ring structure, idx strictly increasing 0..n-1 and simplify == input[idx], '
             'eps <= 0 identity, rings closed, RDP / VW-preserve rings >= 4 coordinates, every RDP-dropped vertex within eps(1+128u) of its replacing segment '
             '(under the reported indices, or under SOME embedding when coordinates repeat), every VW survivor with triangle area > eps (exact, no allowance, '
             'while |coordinates| < 2^25; 64*u*|x|*|y| otherwise), plus algorithm-definition clauses (RDP: farthest vertex kept / all culled / every kept vertex '
             'justified by a chord / exact tie culls; VW: nothing removed when every consecutive triangle > eps, every dropped vertex justified by some triangle '
             '<= eps; VW-preserve: VW area rule on strictly convex vertex sets, documented minimum-points rule on 5-coordinate exteriors and previous-point rule '
             'on 6-coordinate exteriors). Non-trivial = (family rdp|vw|vwp, geometry, lattice, eps) with eps > 0 finite for which at least one vertex was dropped '
             'AND at least one interior vertex was kept; distinct = FNV digest of exactly that tuple, merged over shards.',
     'assumptions': ['inputs generated on an exactly representable dyadic lattice (offset up to 2^40, scale 2^-30..2^30, lattice coordinates 0..2^20); oracle = '
                     'exact i128 distances / areas on the lattice preimage, independent of geo',
                     "point-segment (not point-line) distance, as the statement says ('the retained segment that replaces it') and as geo computes it",
                     "RDP distances carry a relative allowance of 128u (geo's formula <= 4u, oracle <= 2u, observed <= 4u); exact ties d == eps are judged only "
                     'where every floating formula is exact (axis-parallel chord of power-of-two length)',
                     'VW areas are judged without allowance while all absolute coordinates are below 2^25 (Triangle::unsigned_area is exact there); at larger '
                     'offsets the allowance is 64*u*|x|max*|y|max and the signature vw.area.cancellation reports decisions that are wrong by more than 16u*eps but '
                     'inside that allowance (defect D1 of the pinned tree)',
                     "topology preservation of simplify_vw_preserve is NOT promised by the docs ('does not guarantee a valid output geometry') and is observe-only "
                     '(class counters); only its documented rules are judged',
                     'eps = NaN or +inf: observe-only (crash / result counted, no verdict)',
                     'a watchdog thread aborts the shard when one case runs > 30 s or RSS > 3 GB (a broken heap loop in VW does not terminate); the driver then '
                     'reports the shard as crashed'],
     'min_nontrivial': {'quick': 100000, 'thorough': 1000000},
     'legs': {'thorough': [{'kind': 'asan', 'budget': 2000, 'shards': 4}]},
     'required_probes': ['rdp.min_size_guard', 'vw.stale_heap_entry']},
    'C10': {'required_probes': ['monotone.mono_poly.vertical_stretch', 'stitch.parent_lookup'],
     'budget': {'quick': 3000, 'thorough': 60000},
     'rule': 'valid lattice polygons / multipolygons (0-3 holes incl. holes touching the shell or one another at a point, reflex and collinear vertices, vertical '
             'edges, offsets up to 2^30, scales 2^-10..2^10); ear-cut (per polygon, judged only when no two rings touch), constrained / constrained-outer / '
             'unconstrained Delaunay (lattice spacing >= 1 because of the documented absolute 1e-4 snap radius), monotone subdivision, stitch_triangulation of the '
             'constrained triangulation. Exact judgements on the lattice preimage: every corner is an input vertex (bitwise), sum of exact piece areas = exact '
             'polygon (or convex hull) area, pairwise disjoint interiors (integer separating-axis test / arrangement oracle), every piece inside the polygon '
             '(arrangement oracle: exterior(P) meets neither interior nor boundary of the piece), MonotonicPolygons::intersects(c) == (c not exterior to P) for '
             'every lattice and half-lattice coordinate of the envelope +-1, stitched multipolygon has the same exact area and the same location function on every '
             'half-lattice point. Non-trivial = polygon with >= 4 segments; distinct by digest.',
     'assumptions': ['inputs generated on an exactly representable dyadic lattice (offset up to 2^40, scale 2^-30..2^30); oracle = exact i128 rational arrangement '
                     '(harness/src/model.rs), independent of geo',
                     'Delaunay strata use lattice scales >= 1 (default snap_radius is an absolute 1e-4 by documented design)'],
     'min_nontrivial': {'quick': 1000, 'thorough': 10000},
     'legs': {'thorough': [{'kind': 'asan', 'budget': 300, 'shards': 4},
                           {'kind': 'miri',
                            'args': ['run', 'C10', '--seed', '{seed}', '--shard', '0', '--nshards', '1', '--tier', 'quick', '--budget', '5', '--out', '{out}'],
                            'timeout': 5400}]}},
    'C11': {'budget': {'quick': 8000000, 'thorough': 150000000},
     'rule': 'A case is a pure function of (seed, shard, k): one ordered pair of f64 segments (p, q); every case is evaluated as line_intersection(p,q) AND '
             "line_intersection(q,p) plus p.intersects(q) / q.intersects(p). Every fourth case index walks the exhaustive sub-space 'all ordered segment pairs on "
             "a 5x5 lattice' (7x7 in thorough; 390 625 / 5 764 801 pairs split over the shards, lattice offset and power-of-two scale drawn from the seed); the "
             'others are drawn from these strata (per 34): coincidence-rich small lattices (side 2..16) under an axis-wise affine map with offsets up to 2^52-20, '
             'two different power-of-two scales and signed zeros (3); proper crossings at a lattice point / near the midpoint / generic (3); shared end points '
             'incl. almost collinear continuation (2); T-junctions (3); the seven collinear configurations disjoint / abutting / partial overlap / strictly '
             'contained / contained sharing the start / sharing the end / equal on exactly collinear families a + t d with coordinates up to 2^52, 1 in 5 with one '
             'coordinate moved by an ulp (5); nearly parallel pairs a few lattice units or ulps apart, on the same or on opposite sides (4); zero-length segments: '
             'point in the interior / at an end point / collinear outside / beside the segment / anywhere / two equal points / two different points (2); '
             'near-touch: shared end point, T-junction or crossing-at-an-end with coordinates moved by 1-3 ulps (3); thin bounding boxes (2); full 53-bit '
             'mantissas: points rounded onto a segment, crossings, random, mixed exponents (3); random control (1); exponent spreads of up to 500 binary digits on '
             'lines through the origin (2); observe-only extreme exponents 2^+-330..1000 (1). Every lattice core is used in both orders and both directions '
             '(random role swap and flips), half of the cores use 52-bit coordinates, a third of the smaller ones get a common offset up to 2^52, 40 % are '
             'multiplied by a common power of two (2^-30..30, 1 in 10 anywhere in 2^-300..300). Each result is judged clause by clause (classify, '
             'classify.is_proper_method, collinear.segment, improper.endpoint, proper.envelope, proper.accuracy, agrees.intersects, order.independence, panic) '
             'against four exact orientation signs (i128, or arbitrary-precision integers when the set bits span more than 60 binary digits) and exact f64 '
             'coordinate comparisons. Non-trivial = the closed bounding boxes of p and q intersect (the envelope rejection does not decide the case; at least the '
             'robust orientation stage is reached); distinct = distinct FNV digest of the eight coordinate bit patterns in order (p.start, p.end, q.start, q.end), '
             'merged over shards (each shard keeps at most 4 000 000 digests).',
     'assumptions': ['finite f64 coordinates whose set bits lie within binary exponents [-305, 300): no product of three coordinate differences over- or '
                     'underflows in raw_line_intersection and the adaptive orientation predicate does not underflow (outside: observe-only stratum, crashes only; '
                     'the underflow of orient2d is the recorded C03 finding orient2d_underflow)',
                     'proper.accuracy is judged as |got - X|_inf <= 32 u (M + E kappa) with M = largest |coordinate|, E = largest bounding-box side, kappa = '
                     '|p||q|/|p x q|, and only for kappa <= 1024; for nearly parallel pairs (kappa > 1024) only classification, envelope, intersects and order '
                     'clauses are judged (the error is recorded as a maximum, not judged)',
                     'order.independence compares the classification, the improper point and the overlap (up to direction) numerically (two end points at one '
                     "position may differ in the sign of a zero); the computed proper point is not part of that clause (the statement lists only 'the "
                     "classification, and any endpoint or overlap returned')",
                     'a zero-length segment has no interior: a shared point with a zero-length segment is expected as SinglePoint{is_proper: false}',
                     'the nearest_endpoint fallback and the two ways into it are not observable without a hook; reach is inferred from the result (a proper point '
                     'that is a bit copy of an input end point)'],
     'min_nontrivial': {'quick': 20000000, 'thorough': 40000000},
     'technique': 'runtime monitoring: exact integer oracle (i128 / arbitrary precision) over observed results of line_intersection and Line::intersects, '
                  'exhaustive small-lattice sub-space, both argument orders',
     'required_probes': ['line_intersection.collinear', 'line_intersection.nearest_endpoint_fallback']},
    'C12': {'required_probes': ['interior_point.y_perturbed'],
     'budget': {'quick': 25000, 'thorough': 600000},
     'rule': 'per case one generated geometry of any type (half of them polygons with holes / tangent holes / multipolygons, 1 in 10 a sliver of height 1 and '
             'width up to 2^20) with lattice offset/scale: interior_point must be None exactly for empty input, otherwise a point whose exact location (f64 result '
             'converted exactly to a rational) is not the exterior, and the interior for areal input, and must not panic; closest_point to three query points '
             '(vertices, lattice points on edges, neighbours, outside points): Intersection iff the exact location of the query is not exterior (and then equal to '
             'the query within 8u), otherwise a point whose exact distance to g is <= 16u·(M+extent+d) and whose distance to the query equals the exact minimum '
             'distance within the same tolerance; Indeterminate only for empty input; enum and concrete type agree. One case in four feeds 2-7 lattice segments to '
             'sweep::Intersections and compares with brute-force line_intersection (observe-only: counted, not judged). Non-trivial = geometry with linework; '
             'distinct by (geometry, query) digest.',
     'assumptions': ['inputs generated on an exactly representable dyadic lattice (offset up to 2^40, scale 2^-30..2^30); oracle = exact i128 rational arrangement '
                     '(harness/src/model.rs), independent of geo',
                     'for lineal input interior_point is only required to intersect the geometry (the implementation documents that it returns a vertex); '
                     "'strictly inside' is judged for areal input as the statement's 'in particular' clause says"],
     'min_nontrivial': {'quick': 1000, 'thorough': 10000},
     'legs': {'thorough': [{'kind': 'asan', 'budget': 2000, 'shards': 4},
                           {'kind': 'miri',
                            'args': ['run', 'C12', '--seed', '{seed}', '--shard', '0', '--nshards', '1', '--tier', 'quick', '--budget', '40', '--out', '{out}'],
                            'timeout': 5400}]}},
    'C13': {'budget': {'quick': 12000, 'thorough': 250000},
     'rule': 'three case kinds in rotation: (algebra) chains of 1-8 integer affine matrices incl. singular ones, compose / compose_many / apply / is_identity / '
             'inverse for AffineTransform<f64> and <i64> compared bit-for-bit with an i128 matrix model (inverse entries within 4u, round trip within 16u·S); '
             '(trait) every Rotate/Scale/Skew/Translate method and its _mut form on a generated geometry of every type vs the documented matrix about the '
             'documented origin (centroid / bounding-box centre / given point) within 8u·S; (commute) an exact map (signed permutation matrix, integer translation '
             'up to 2^40, power-of-two scale) applied through affine_transform must give exactly the mapped lattice geometry, and relate / intersects / contains / '
             'coordinate_position / is_valid / validation error count must be unchanged, areas / distances / lengths / Hausdorff distance scaled by exactly the '
             'factor, convex-hull vertex set and bounding_rect mapped exactly. Non-trivial = chains of >= 2 matrices, non-empty geometries; distinct by digest.',
     'assumptions': ['inputs generated on an exactly representable dyadic lattice (offset up to 2^40, scale 2^-30..2^30); oracle = exact i128 rational arrangement '
                     '(harness/src/model.rs), independent of geo',
                     'Rect and Triangle rebuild themselves from mapped coordinates (corner re-normalisation, counter-clockwise re-ordering): coordinate-wise '
                     'comparison of trait results is restricted to order-preserving maps for geometries containing them',
                     'under translations >= 1000 the measure-scaling clause is judged relative to the coordinate magnitude (16u·M² / 16u·M), because algorithms '
                     'that do not shift to a local origin are not exact there'],
     'min_nontrivial': {'quick': 1000, 'thorough': 10000},
     'technique': 'runtime monitoring: i128 matrix model + metamorphic (exact-map commutation) oracle over observed results'},
    'C14': {'budget': {'quick': 12000, 'thorough': 250000},
     'rule': 'valid lattice polygons / multipolygons from the generators, mutated into one invalidity class at a time (bow-tie, spike, collinear ring, vertex '
             'revisit, hole moved outside/across the shell, hole sharing an edge, nested/overlapping/identical holes, overlapping / edge-sharing / identical '
             'members, member made invalid, too few points, unclosed input, repeated consecutive vertex, random vertex move) plus the other types with their own '
             'rules and a non-finite-coordinate stratum; is_valid (enum and concrete type) must equal the exact clause-by-clause predicate, '
             'validation_errors().is_empty() and check_validation().is_ok() must equal is_valid, and every reported polygon / multipolygon error must name a ring '
             'or member for which the corresponding exact predicate holds. Non-trivial = geometry with >= 3 segments; distinct by digest.',
     'assumptions': ['inputs generated on an exactly representable dyadic lattice (offset up to 2^40, scale 2^-30..2^30); oracle = exact i128 rational arrangement '
                     '(harness/src/model.rs), independent of geo',
                     'rings are judged after removing repeated consecutive coordinates and closing them, as geo-types and the documentation do',
                     "interior connectedness is not part of the statement (nor of geo's documented rules) and is not judged"],
     'min_nontrivial': {'quick': 1000, 'thorough': 10000}},
    'C15': {'budget': {'quick': 700000, 'thorough': 11000000},
     'rule': 'A case is a pure function of (seed, shard, k). 55% of the cases are interpolation cases: one Line (20%) or LineString (80%) on the dyadic lattice '
             'x=(ox+i)*2^sh (ox in {0,+-1e3,+-1e8,+-2^40}, sh in [-30,30]) built from axis-parallel integer segments, scaled Pythagorean vectors (exact lengths; '
             'optionally padded so that the total is a power of two and every vertex ratio is an exact dyadic), or arbitrary lattice vectors (irrational lengths); '
             '1..40 segments, open monotone/free walks, closed rings, repeated vertices at the start / end / inside, all-zero-length lines; probed with ~20 ratios '
             '(0, 1, <0, >1, +-inf, 5e-324, 1-+ulp, random, dyadic, every vertex ratio and its two ulp neighbours, segment mid-ratios) and ~14 distances (the same '
             'families in distance units). 45% are densify cases: one Line, LineString, MultiLineString, Polygon (0-2 holes), MultiPolygon, Rect or Triangle and '
             'one max: segment_length/integer (35%, the ceil boundary) and its ulp neighbours (10%), far below the shortest segment, between shortest and total, '
             'exactly the total, above the total, +inf, small dyadic. Non-trivial: an interpolation case whose line has positive length and at least one probe '
             'ratio strictly inside (0,1); a densify case in which at least one point was inserted. Distinct: FNV digest of (type, lattice vertices, lattice, all '
             'probe bit patterns) resp. (geometry, lattice, bit pattern of max).',
     'assumptions': ['Euclidean metric space, f64 coordinates only (Haversine/Geodesic/Rhumb are C16; f32 is not exercised).',
                     'Coordinates are finite dyadic-lattice values (|ox+i| <= 2^40+2^12, scale 2^-30..2^30); no NaN/inf coordinates.',
                     'NaN ratios/distances and LineStrings with fewer than 2 coordinates are observe-only (no verdict).',
                     'densify: max > 0 and not NaN (documented precondition, geo asserts it); at most ~4000 pieces per geometry.',
                     'line_locate_point round trip is judged only for lines that are simple after removal of repeated vertices, of positive length, and whose '
                     'derived tolerance is below 2^-10 (large lattice offsets relative to the length are skipped and counted).',
                     'libm hypot is exact on scaled Pythagorean vectors (checked at start-up, recorded in notes; otherwise inconclusive).'],
     'min_nontrivial': {'quick': 300000, 'thorough': 3000000},
     'legs': {'thorough': [{'kind': 'miri',
                            'args': ['run', 'C15', '--seed', '{seed}', '--shard', '0', '--nshards', '1', '--tier', 'quick', '--budget', '150', '--out', '{out}'],
                            'timeout': 5400}]}},
    'C16': {'budget': {'quick': 50000, 'thorough': 800000},
     'rule': 'at k = 0 every shard first executes 7 fixed witnesses of the defects recorded in REPORT.md (c); then a case is a pure function of (seed, shard, k): '
             'one pair of lon/lat points (a, b) drawn from one of ten generators (general uniform-on-sphere / quarter-degree / special-value points with |lat| <= '
             '85; local 0.1 m - 1000 km; antimeridian-straddling incl. lon = +-180 exactly; meridional and over-the-pole meridional; equatorial / nearly east-west '
             "with latitude differences 0, around geo's |dpsi| = 1e-11 switch, and 1e-15.5 .. 1e-3 degrees; nearly coincident incl. +-3 ulp neighbours; high "
             'latitude 85-89.9; observe-only poles / antipodes / coincident points), a ratio r in [0,1] (0, 1, 0.5, 1-2^-53, 2^-52, 5e-324, 10^-17..10^-1, '
             'uniform), a free bearing in [-720, 1080] incl. exact multiples of 90 +- 1e-15..1e-3, a free distance (+-1 mm .. 2e7 m, +-1e7..1e8 m, 0, -0, '
             'denormal), a max_distance = d/x with x <= 24 (exact integers, integers +- 1e-15, < 1, = 1), a line string of 0-9 points and its split into a multi '
             'line string, a custom sphere radius (1 .. 1e8 m) and a custom ellipsoid (7 named ones, or a in [1e5, 3e7] m with f in [0, 0.012]). Every case goes '
             'through Haversine, HaversineMeasure::{GRS80_MEAN_RADIUS, GRS80_EQUAL_AREA, GRS80_EQUAL_VOLUME, new(radius)}, Geodesic, GeodesicMeasure::{wgs84(), '
             'new(a, f)}, Rhumb and the deprecated Haversine*/Geodesic*/Rhumb* traits. Judged: distance finite, >= 0, exactly 0 on identical points, symmetric '
             "within 64u(d+R); bearing in [0,360); destination(a, bearing(a,b), distance(a,b)) within tau of b measured with the space's own distance (also with "
             'bearing+360k and with (bearing+180, -distance)); point_at_ratio_between / point_at_distance_between divide the distance r : 1-r within tau at both '
             'ends; points_along_line: with max_distance = 1024 x distance only the two end points, include_ends adds exactly the two end points, consecutive '
             'distance <= max_distance + tau, interior points evenly spaced and equal to point_at_ratio_between(a, b, j/n) within tau; length(Line | LineString | '
             'MultiLineString) == sum of segment distances within 16 n u sum; every returned longitude in [-180,180], latitude in [-90,90], finite; free (bearing, '
             'distance): distance(a, destination) == |s| and bearing(a, destination) == bearing (mod 360, +180 for negative s) within tau; independent references: '
             'documented radii exactly, great-circle distance / bearing / destination from n-vector formulas, loxodrome distance / course / destination from the '
             'cancellation-free isometric-latitude difference 2 atanh(sin(dphi/2)/cos(phi_mid)), Geodesic against direct geographiclib_rs inverse/direct calls '
             '(lat/lon order, azimuth mod 360, custom a and f); deprecated traits equal to the new API bit for bit (HaversineBearing / GeodesicBearing: equal mod '
             '360 and in [-180,180]). tau = 1 mm x (body radius / Earth radius); for Rhumb plus 256 u d_ew/(|dpsi| cos(phi_max)) (= 256 u d_ew/|dphi| for small '
             "latitude differences) on nearly east-west courses above geo's |dpsi| = 1e-11 switch and 16 d_ew tan(phi) |dphi| below it (d_ew = east-west extent). "
             'Tolerance clauses are judged in the strata general, antimeridian, meridional, meridional_over_pole, east_west, near_coincident, high_latitude '
             '(classified from the generated pair, not from the generator); poles (|lat| > 89.9), antipodes (separation > pi - 0.02) and coincident points are '
             'observe-only: finite output, ranges, no panic. Non-trivial = case whose pair falls in the general stratum (|lat| <= 85, separation in [1e-7, '
             'pi-0.02] rad, not antimeridian-straddling, not meridional, latitude difference >= 1e-3 degrees); distinct = distinct FNV digest of the bit patterns '
             'of (a, b, r, free bearing, free distance), merged over shards.',
     'assumptions': ['inputs: finite longitudes in [-180, 180] and latitudes in [-90, 90] (f64 only; the f32 instantiations of Haversine / Rhumb are not '
                     'monitored)',
                     "the statement's 'millimetre-scale tolerance' is read as 1 mm on the Earth, scaled with the radius of a custom sphere / the equatorial radius "
                     'of a custom ellipsoid',
                     "Rhumb, nearly east-west courses (0 < |dlat|, |dpsi| > 1e-11): geo's q = dphi/dpsi loses accuracy like u/|dphi|; per DESIGN.md this stratum "
                     'has its own calibrated tolerance 256 u d_ew/(|dpsi| cos(phi_max)) (errors up to 860 m are observed and accepted there; see REPORT.md (c) N1)',
                     'Rhumb destinations whose course reaches or passes a pole (|phi1 + delta cos(theta)| >= pi/2) are observe-only: a loxodrome ends at the pole',
                     'inverse relation (distance / bearing back from a free destination) is judged only while the travelled arc is certainly the shortest one: |s| '
                     '<= (pi - 0.02) R (sphere), (pi - 0.02) b (ellipsoid), total longitude change < 180 degrees (rhumb), origin and destination |lat| <= 85',
                     'points_along_line: max_distance > 0 only (max_distance <= 0 makes the implementations loop forever and is outside the statement); an extra '
                     'interior point just before the end (accumulated step k*(1/n) < 1 after n additions) is counted (class along:extra_point_at_end) and judged '
                     'like the other points, not reported, because the documentation does not promise the count',
                     "Geodesic results are compared with the same geographiclib_rs version the harness links (0.2.7, 'accurate' feature off); the three repository "
                     'unit tests that fail in this sandbox compare against constants produced by another build of that library (last-digit differences) and are '
                     'unrelated to the clauses monitored here'],
     'min_nontrivial': {'quick': 10000, 'thorough': 150000}},
    'C17': {'required_probes': ['prepared.clone_for_arg_index.swap'],
     'budget': {'quick': 4000, 'thorough': 40000},
     'rule': 'one case = one recorded history: a PreparedGeometry (owned, from the Geometry enum) reused for 10-60 (thorough: up to 300) relate calls against a '
             'pool of 2-8 partners derived from it (plus itself), operand position random, partner given as plain enum / plain concrete type / freshly prepared '
             '(owned, borrowed, from the concrete type), clone() of the prepared geometry interleaved; every response is compared with the sequential model (plain '
             'relate on the underlying geometries) and with the response the same request got earlier in the history. Non-trivial = history with >= 2 responses in '
             'which the operands intersect; distinct by digest of (prepared geometry, pool, length).',
     'assumptions': ['inputs generated on an exactly representable dyadic lattice (offset up to 2^40, scale 2^-30..2^30); oracle = exact i128 rational arrangement '
                     '(harness/src/model.rs), independent of geo',
                     'the sequential model (plain relate) is judged against the exact oracle by C01, not here'],
     'min_nontrivial': {'quick': 500, 'thorough': 5000},
     'technique': 'runtime monitoring: recorded call/return histories checked against a sequential model (plain relate) and for response stability',
     'legs': {'thorough': [{'kind': 'miri',
                            'args': ['run', 'C17', '--seed', '{seed}', '--shard', '0', '--nshards', '1', '--tier', 'quick', '--budget', '5', '--out', '{out}'],
                            'timeout': 5400}]}},
    'C18': {'budget': {'quick': 200000, 'thorough': 5000000},
     'rule': 'one case = one recorded API history judged after EVERY call against a shadow model kept by the harness (plain coordinate vectors closed by the '
             'documented rule / the four numbers of a rectangle), or one conversion case. (1) Polygon histories over {Polygon::new, exterior_mut, '
             'try_exterior_mut, interiors_mut, try_interiors_mut, interiors_push (7 Into<LineString> forms), into_inner+Polygon::new with tampered parts, '
             'clone/swap between two polygons, LineString::close and direct edits on a free LineString that is also fed back as exterior/interior, '
             'Geometry/MultiPolygon/GeometryCollection round trips} with closures from {push, pop, clear, replace first/last, swap, truncate, insert front, '
             'remove, reverse, rotate, push-copy-of-first, no-op; on the interiors slice: edit one ring, edit every ring, swap/reverse/rotate rings, overwrite a '
             'ring, take a ring, no-op} x {Ok, Err before mutating, Err after mutating}, on Polygon<f64> and Polygon<i32>, bare or reached through MultiPolygon '
             '(.0 / iter_mut / &mut IntoIterator), Geometry::Polygon, Geometry::MultiPolygon, GeometryCollection (IndexMut / iter_mut): every ring closed (own '
             "first==last comparison and is_closed()), ring contents and ring counts bit-identical to the shadow, fallible mutators return the closure's result. "
             'Exhaustive: every history of length <= 3 (thorough: <= 4) over a reduced alphabet of 64 calls from 3 initial polygons (798,912 / 51,130,560 '
             'histories over the 16 shards). (2) Rect histories (Rect<f64>, Rect<i64>, bare or inside Geometry::Rect): Rect::new / try_new from any corner order '
             'incl. degenerate, set_min / set_max (valid: accepted and stored bit-exact; invalid: the documented panic is REQUIRED and ends the history), after '
             'every call min <= max, width/height >= 0, min/max equal to the shadow, to_polygon / Polygon::from(rect) = the 4 corners counter-clockwise once each '
             'and closed (start corner free), to_lines chained ccw, Geometry round trip; exhaustive over all 81 corner pairs of {0,1,2}^2 followed by <= 2 '
             '(thorough: <= 3) calls of a 22-call alphabet. (3) Conversion cases: Line -> LineString, Triangle (new: same vertex multiset, ccw when the cross '
             'product is exactly computable, unchanged when collinear; to_array / to_polygon / to_lines / From<Triangle> follow the STORED order), Geometry::from '
             '+ TryFrom for the 9 convertible types against all 9 targets (wrong target = Err naming expected/found types) and the deprecated into_x accessors, '
             'GeometryCollection through its variant, member order of MultiPoint / MultiLineString / MultiPolygon / GeometryCollection through new / From<Vec> / '
             'FromIterator / into_iter / iter / iter_mut / Index, coordinate conversions from tuples, arrays, Points, and the polygon!/line_string!/point!/coord! '
             'macros; (4) LineString::close on all 1093 rings of length <= 6 over 3 coordinates (closed afterwards, idempotent, empty stays empty). Non-trivial = '
             'a history of length >= 2 that contains at least one mutator (constructor, mutator closure, push, rebuild, close, set_min/set_max); distinct by FNV '
             'digest of (numeric type, host, initial objects, complete call sequence with operands), merged over shards; the length-4 exhaustive histories of the '
             'thorough tier are counted in classes only (their digests are not stored).',
     'assumptions': ['coordinates: small integers, plus (f64 only) fractional, 2^53, 1e15+1, +-1e300, 5e-324; i32/i64 instances use integers only; NaN corners of '
                     "a Rect are observe-only (no verdict); -0.0 and NaN are not put into rings (the closing rule compares values, and NaN != NaN makes 'closed' "
                     'unattainable)',
                     'a closure that mutates and then returns Err may legitimately leave either the re-closed edit or the rolled-back ring: both are accepted, an '
                     'unclosed ring is not',
                     'the state of a Rect after a CAUGHT panic of set_min/set_max is logged (class rect.after_caught_panic:*) and not judged; closures that unwind '
                     'are outside the statement',
                     "Triangle::new orientation is judged only where geo's documented non-robust cross product is exact (integers below 2^25; below 16000 for i32)",
                     'interiors_mut / try_interiors_mut hand out a slice, so their closures cannot add or remove rings; adding/removing rings is exercised through '
                     'interiors_push and into_inner + Polygon::new'],
     'min_nontrivial': {'quick': 500000, 'thorough': 5000000},
     'technique': 'runtime monitoring: recorded API histories, invariants and a shadow model evaluated after every call; bounded-exhaustive enumeration of short '
                  'histories plus seeded random histories up to 64 calls',
     'legs': {'thorough': [{'kind': 'miri',
                            'args': ['run', 'C18', '--seed', '{seed}', '--shard', '0', '--nshards', '1', '--tier', 'quick', '--budget', '300', '--out', '{out}'],
                            'timeout': 5400}]}},
    'C19': {'budget': {'quick': 50000, 'thorough': 450000},
     'rule': 'A case is a pure function of (seed, shard, k): one lattice geometry (any of the 10 types or a GeometryCollection nested up to 4 deep with members of '
             'mixed dimension; validity NOT required: empty members, 0/1/2-coordinate line strings, unclosed / 1-3-coordinate rings, polygons with 0-8 holes, '
             'empty shells, degenerate Rect/Line/Triangle, repeated coordinates, 20 % valid shapes from the shared generators), one lattice map (offset '
             '0/+-1e3/+-1e8/+-2^40, scale 2^-30..2^30) and a flag choosing Triangle::new or the raw tuple constructor. The geometry is built as f64 on every case '
             '(plus map_coords f64->i64) and as one of f32/i64/i32 (k mod 3; all three in the thorough tier). For the Geometry enum value, the concrete type '
             'inside it, `&[Coord]` and `[Coord; N]` (N = 0,1,2,3,7) every clause is compared bit for bit with a reference obtained by structural recursion over '
             'the public fields of the built value (never through CoordsIter / LinesIter / MapCoords / BoundingRect / Extremes): coords_count = '
             'coords_iter().count() = reference length (+ size_hint brackets at every step, len() where ExactSize); coords_iter and exterior_coords_iter = '
             'reference (Rect up to rotation of its ccw corner cycle); lines_iter = consecutive pairs per linear component; map_coords / map_coords_in_place / '
             'try_map_coords / try_map_coords_in_place with an exact injective affine f and with an orientation-reversing f = structurally mapped reference (Rect: '
             'min/max of the mapped corners; Triangle: reversed iff the exact orientation of the image is clockwise), a position-stamping closure (call count, '
             'argument multiset, every result present), a fallible f failing at every position k (exact error value; in place also the promised immediate return); '
             'bounding_rect None-ness and min/max; extremes None-ness, bounds attained, indices naming their coordinates in the exterior traversal. Non-trivial = '
             'the geometry has at least 2 coordinates; distinct = distinct FNV digest of (lattice geometry, triangle constructor flag), merged over shards.',
     'assumptions': ['coordinates are finite lattice values x = (o + i) * 2^s exact in the scalar type (no NaN, no -0.0): min/max and bit-for-bit equality are '
                     'then unambiguous; the mapping functions are exact on the lattice',
                     "bounding_rect / extremes verdicts only when every interior-ring coordinate lies inside its shell's envelope (true for every valid polygon), "
                     'because Polygon / MultiPolygon::bounding_rect and extremes() read exterior rings only; polygons with holes reaching outside (or an empty '
                     'shell with non-empty holes) are observe-only (crash detection)',
                     'Rect traversals are compared up to rotation (docs promise CCW order, no start corner); Triangle traversal is the stored order; map_coords of '
                     'a Triangle is compared after the documented Triangle::new normalisation (exact integer orientation of the image)',
                     'map_coords documents no call order: the stamping closure judges the call count and the multiset of arguments (Rect: min and max), call order '
                     'is only recorded; the state left by a failing try_map_coords_in_place is documented as unspecified and only recorded',
                     "i32 / f32 instantiations use offsets <= 1000 so that Triangle::new's cross product and the images 2v+1 stay exact in the type",
                     'Geometry::try_map_coords_in_place and GeometryCollection::try_map_coords_in_place cannot be instantiated on the pinned tree (compile-time '
                     'defect, reported as the fixed signature map.try_in_place_uninstantiable); they are monitored when the harness is built with --cfg '
                     'georust_geo_c19_enum_try_in_place',
                     'GeometryCow (geo/src/geometry_cow.rs) is pub(crate) and cannot be reached from outside the crate'],
     'min_nontrivial': {'quick': 100000, 'thorough': 500000},
     'legs': {'thorough': [{'kind': 'asan', 'budget': 2000, 'shards': 4},
                           {'kind': 'miri',
                            'args': ['run', 'C19', '--seed', '{seed}', '--shard', '0', '--nshards', '1', '--tier', 'quick', '--budget', '30', '--out', '{out}'],
                            'timeout': 5400}]}},
    'C20': {'budget': {'quick': 4000, 'thorough': 20000},
     'shards': 8,
     'rule': 'a fixed, seeded list of ~200 (quick) / ~215 (thorough) calls - BooleanOps x4, relate and unary_union on coincidence-rich lattice polygon pairs, '
             'unary_union / stitch_triangulation / constrained triangulation / par_iter().map().collect() over 12-15 member collections (disjoint, edge-sharing, '
             'overlapping), stitch and triangulations of a polygon with 6 holes, concave_hull, k_nearest_concave_hull, convex_hull, outlier detection, par_iter / '
             'par_iter_mut over MultiPoint and MultiLineString, simplify / simplify_vw / simplify_vw_preserve, interior_point, and (scale 2) boolean operations '
             "and unary_union on 12 000- and 40 000-segment noisy circles that enter i_overlay's parallel splitter and parallel sort - each producing an FNV "
             "digest over the output's structure and coordinate bits in order. Monitors: every call twice in one process (shards), and the process matrix leg: the "
             'same list in fresh processes (fresh RandomState seeds, ASLR) under RAYON_NUM_THREADS in {1,2,3,7,16,default}, logs compared line by line. Thorough '
             'adds ThreadSanitizer (build-std) on the scale-2 list with 16 and 3 threads, Miri (tree borrows, 3 worker threads, 8 interleaving seeds) on the toy '
             'list and valgrind memcheck. Non-trivial = every call (distinct by op name and digest).',
     'assumptions': ["'all interleavings' is not enumerable: the claim is no difference over the processes x thread counts x Miri schedules actually run, and zero "
                     'race / uninitialised-read reports on them'],
     'min_nontrivial': {'quick': 100, 'thorough': 200},
     'legs': {'quick': [{'kind': 'procmatrix', 'seeds': 4, 'scale': 2}],
              'thorough': [{'kind': 'procmatrix', 'seeds': 8, 'scale': 2},
                           {'kind': 'tsan', 'scale': 2, 'threads': [16, 3]},
                           {'kind': 'memcheck', 'args': ['digest-run', '--scale', '1'], 'threads': 3},
                           {'kind': 'miri',
                            'args': ['digest-run', '--scale', '0', '--seed', '{seed}'],
                            'threads': 3,
                            'many_seeds': 8,
                            'miriflags': '-Zmiri-tree-borrows -Zmiri-ignore-leaks'}]},
     'technique': 'runtime monitoring: offline checker over recorded per-call output digests across processes and thread counts; ThreadSanitizer, Miri and '
                  'memcheck on the same workload'},
}

# strata and clauses added after the rule texts above were written (appended to the rule in the evidence)
ADDENDA = {
    'C01': 'Re-spellings include a coordinate written twice in a row (LineString, MultiLineString, Polygon, MultiPolygon) and clockwise-stored Triangles (tuple constructor).',
    'C02': 'One operand of its concrete type against the other wrapped in the Geometry enum (either side) is judged for intersects / contains / within as well.',
    'C07': 'Also judged: concrete-to-enum and enum-to-concrete forms of both trait families, the Coord forms (Coord-Coord, Coord-Line, Line-Coord; new and deprecated) and the public helper nearest_neighbour_distance for disjoint line strings.',
    'C08': 'Stratum mixed-magnitude (1 case in 40, f64 and f32): far points m*2^50..57 together with points within 2^21 of the origin one lattice step beside a line from the origin to a far point, all exactly representable in the scalar type.',
    'C10': 'Comb polygons (1 case in 30): 3-5 arms, notch apexes of different depths (several merge / split vertices pending at once in the monotone builder), mirrored / flipped / transposed, optionally with a hole in the spine. MultiPolygon members are also handed to the Delaunay family as Vec<Polygon> and as a slice; every MonoPoly piece must have the documented shape (two strictly increasing chains between the same end points; accessors, owned forms and bounds agree).',
    'C12': 'MultiPolygons with members WITHOUT area (flat ring, one-coordinate ring) at any position, the first included, bare or inside a collection: interior_point must lie strictly inside a member that has area.',
    'C13': 'AffineTransform::new, From<[T; 6]> and From<(T, T, T, T, T, T)> must name the six entries in the same order (f64 and i64). Triangles are stored as written (both windings) and compared up to the vertex order MapCoords gives them.',
    'C14': 'The non-finite stratum includes Rects (+-inf corners); is_valid, validation_errors().is_empty() and check_validation().is_ok() must agree through the enum and through the concrete type.',
    'C16': 'One case in 48 carries a track of 255-1030 coordinates (length = sum of segment distances must survive any batching); HaversineMeasure::default() has the documented radius.',
    'C17': 'After the whole history geometry(), the clone and into_geometry() must still return the geometry that was prepared.',
    'C18': 'After every Rect call with finite bounds, split_x / split_y must give two Rects with min <= max that share one cut inside the bounds and keep the outer bounds.',
    'C20': 'placement.* ops: the same object as both operands against a separate equal copy (MultiPolygon and Polygon entry points, 4 operations), and unary_union over one listing of members given as a slice, as references with rising / falling addresses, separately boxed, and with one member listed twice (same object / equal copy), mixed windings: one digest for all.',
}
_LARGE = ' One case in 250 of the shared pair generator (C01, C02, C07), one in 50 (C12), one in 60 (C14) and one history in 25 (C17) uses operands of realistic size or with a node of high degree: star polygons of 40-180 vertices, a square with a grid of up to 49 holes (some touching at corners), zigzag line strings of 40-200 vertices, checkerboard MultiPolygons (members touching in points), fans of 8-40 segments / 4-23 triangles meeting in one point, MultiPoints of 50-300 points; partners: the same object, a slightly moved copy, a long line across, a rectangle over a quarter, one of its coordinates, a fan at one of its coordinates, another large shape moved onto it. Operands up to 700 segments are judged by the same exact oracle.'
for _p in ['C01', 'C02', 'C07', 'C12', 'C14', 'C17']:
    ADDENDA[_p] = ADDENDA.get(_p, '') + _LARGE
_LONG = {
    'C02': ' For an operand of 31-400 segments the middle of every segment and every vertex is queried once (coordinate_position, intersects, contains).',
    'C04': ' One case in 500: unary_union of 60-150 grid cells (apart or edge-sharing, a quarter with a hole, optionally inside the hole of a frame), and clip of a track of 17-1030 coordinates zig-zagging across a comb / plate / star; one case in 120: operands with many rings or members against derived partners.',
    'C05': ' One case in 1000: a ring of 17-1030 coordinates (star, or rectangle with a vertex at every lattice step) as shell, as hole of a frame, or as third member of a MultiPolygon.',
    'C06': ' The many-coordinates stratum includes polygons whose shell or hole has 17-1030 coordinates and zig-zag line strings of that length.',
    'C07': ' One case in 400: 17-100 small members on a grid (MultiPolygon / MultiLineString / MultiPoint / GeometryCollection) against a street between two rows, a short segment in a gap or a point; or an operand of realistic size with a derived partner.',
    'C08': ' minimum_rotated_rect: a miss of at most 2^20 u E on an input whose exact hull is thinner than 2^-30 of its length is the recorded finding mrr_rotates_about_centroid_of_thin_hull.',
    'C14': ' Rings of realistic length also carry planted defects: a spike (out and back, vertical / horizontal / oblique), a small loop returning to a vertex, a moved vertex.',
    'C15': ' One open line in 500 is a track of 17-1030 segments.',
    'C18': ' One case in 500: rings of 17-1024 open coordinates in an exactly full or a roomy Vec through ten closing entry points (Polygon::new exterior / interior, exterior_mut, try_exterior_mut Ok / Err, interiors_mut, interiors_push x2, LineString::close, clone().close).',
    'C19': ' One case in 150: components of 17-1030 coordinates (LineString, MultiPoint, ring as shell / hole, member of a MultiLineString or collection) whose extreme coordinates sit anywhere, the very last one included.',
    'C20': ' Results with 70 and 150+ members (unary_union and the four operations on two shifted grids of squares) must keep their member order.',
}
_LONG['C12'] = ' One case in 12: a collection of 2-4 valid members of different dimensions; interior_point must lie on a member of the highest dimension present (strictly inside an areal one).'
_LONG['C19'] = _LONG.get('C19', '') + ' A function that fails on every coordinate and names it: try_map_coords and try_map_coords_in_place must both report the first coordinate of the traversal.'
for _p, _t in _LONG.items():
    ADDENDA[_p] = ADDENDA.get(_p, '') + _t
for _p, _t in ADDENDA.items():
    PROPS[_p]['rule'] = PROPS[_p]['rule'] + ' ' + _t
