"""Per-property configuration of the monitors: shard budgets (in cases, per shard), legs, evidence rule."""

DOMAIN = "inputs generated on an exactly representable dyadic lattice (offset up to 2^40, scale 2^-30..2^30); oracle = exact i128 rational arrangement (harness/src/model.rs), independent of geo"

PROPS = {
    "C01": {
        "budget": {"quick": 12000, "thorough": 250000},
        "rule": "seeded lattice geometry pairs over 18 generator kinds (all 10 types + Geometry + GeometryCollection), partner derived from the first operand half of the time; every relate() result is compared with the exact arrangement DE-9IM oracle, with the transpose, the concrete-type entry point and every respelling of either operand. Non-trivial = oracle says the operands touch/overlap or a coincidence class (shared vertex, vertex on edge, collinear overlap, nested envelopes, mod-2 end points, hole touching shell) is present; distinct = distinct (A,B) lattice preimages (FNV digest), merged over shards.",
        "assumptions": [DOMAIN, "operands restricted to <= 90 segments so that the O(n^2) exact oracle stays cheap"],
        "min_nontrivial": {"quick": 1000, "thorough": 10000},
    },
    "C02": {
        "budget": {"quick": 4000, "thorough": 80000},
        "rule": "same generator as C01; intersects / contains / is_within through the Geometry enum and through every concrete (Self,Rhs) impl, in both operand orders, judged against the documented masks applied to the ORACLE's matrix; coordinate_position / intersects(Coord|Point) / contains(Coord|Point) / is_within judged against the exact location of query coordinates drawn from vertices, lattice points on edges, neighbours. Non-trivial = operands intersect or share a coincidence class / query coordinate not in the exterior; distinct by input digest.",
        "assumptions": [DOMAIN],
        "min_nontrivial": {"quick": 1000, "thorough": 10000},
    },
    "C17": {
        "budget": {"quick": 1500, "thorough": 40000},
        "rule": "one case = one recorded history: a PreparedGeometry (owned, from the Geometry enum) reused for 10-60 (thorough: up to 300) relate calls against a pool of 2-8 partners derived from it (plus itself), operand position random, partner given as plain enum / plain concrete type / freshly prepared (owned, borrowed, from the concrete type), clone() of the prepared geometry interleaved; every response is compared with the sequential model (plain relate on the underlying geometries) and with the response the same request got earlier in the history. Non-trivial = history with >= 2 responses in which the operands intersect; distinct by digest of (prepared geometry, pool, length).",
        "assumptions": [DOMAIN, "the sequential model (plain relate) is judged against the exact oracle by C01, not here"],
        "min_nontrivial": {"quick": 500, "thorough": 5000},
        "technique": "runtime monitoring: recorded call/return histories checked against a sequential model (plain relate) and for response stability",
    },
    "C07": {
        "budget": {"quick": 6000, "thorough": 120000},
        "rule": "same pair generator as C01 (all type pairs, partner derived from the first operand half of the time, lattice offsets/scales); Euclidean.distance through the Geometry enum, through every concrete (A,B) impl, through the legacy EuclideanDistance trait, in both operand orders and for every respelling of either operand, judged against sqrt of the exact rational minimum squared distance over all primitive pairs (0 iff the exact models intersect, incl. containment) within 32·u·max(d, extent); symmetry / typing invariance within 4 ulps. Empty operands are observe-only. Non-trivial = at least one operand has linework; distinct by input digest.",
        "assumptions": [DOMAIN, "empty operands are outside the statement (observe-only stratum)"],
        "min_nontrivial": {"quick": 1000, "thorough": 10000},
    },
    "C13": {
        "budget": {"quick": 12000, "thorough": 250000},
        "rule": "three case kinds in rotation: (algebra) chains of 1-8 integer affine matrices incl. singular ones, compose / compose_many / apply / is_identity / inverse for AffineTransform<f64> and <i64> compared bit-for-bit with an i128 matrix model (inverse entries within 4u, round trip within 16u·S); (trait) every Rotate/Scale/Skew/Translate method and its _mut form on a generated geometry of every type vs the documented matrix about the documented origin (centroid / bounding-box centre / given point) within 8u·S; (commute) an exact map (signed permutation matrix, integer translation up to 2^40, power-of-two scale) applied through affine_transform must give exactly the mapped lattice geometry, and relate / intersects / contains / coordinate_position / is_valid / validation error count must be unchanged, areas / distances / lengths / Hausdorff distance scaled by exactly the factor, convex-hull vertex set and bounding_rect mapped exactly. Non-trivial = chains of >= 2 matrices, non-empty geometries; distinct by digest.",
        "assumptions": [DOMAIN, "Rect and Triangle rebuild themselves from mapped coordinates (corner re-normalisation, counter-clockwise re-ordering): coordinate-wise comparison of trait results is restricted to order-preserving maps for geometries containing them", "under translations >= 1000 the measure-scaling clause is judged relative to the coordinate magnitude (16u·M² / 16u·M), because algorithms that do not shift to a local origin are not exact there"],
        "min_nontrivial": {"quick": 1000, "thorough": 10000},
        "technique": "runtime monitoring: i128 matrix model + metamorphic (exact-map commutation) oracle over observed results",
    },
    "C14": {
        "budget": {"quick": 12000, "thorough": 250000},
        "rule": "valid lattice polygons / multipolygons from the generators, mutated into one invalidity class at a time (bow-tie, spike, collinear ring, vertex revisit, hole moved outside/across the shell, hole sharing an edge, nested/overlapping/identical holes, overlapping / edge-sharing / identical members, member made invalid, too few points, unclosed input, repeated consecutive vertex, random vertex move) plus the other types with their own rules and a non-finite-coordinate stratum; is_valid (enum and concrete type) must equal the exact clause-by-clause predicate, validation_errors().is_empty() and check_validation().is_ok() must equal is_valid, and every reported polygon / multipolygon error must name a ring or member for which the corresponding exact predicate holds. Non-trivial = geometry with >= 3 segments; distinct by digest.",
        "assumptions": [DOMAIN, "rings are judged after removing repeated consecutive coordinates and closing them, as geo-types and the documentation do", "interior connectedness is not part of the statement (nor of geo's documented rules) and is not judged"],
        "min_nontrivial": {"quick": 1000, "thorough": 10000},
    },
    "C10": {
        "budget": {"quick": 3000, "thorough": 60000},
        "rule": "valid lattice polygons / multipolygons (0-3 holes incl. holes touching the shell or one another at a point, reflex and collinear vertices, vertical edges, offsets up to 2^30, scales 2^-10..2^10); ear-cut (per polygon, judged only when no two rings touch), constrained / constrained-outer / unconstrained Delaunay (lattice spacing >= 1 because of the documented absolute 1e-4 snap radius), monotone subdivision, stitch_triangulation of the constrained triangulation. Exact judgements on the lattice preimage: every corner is an input vertex (bitwise), sum of exact piece areas = exact polygon (or convex hull) area, pairwise disjoint interiors (integer separating-axis test / arrangement oracle), every piece inside the polygon (arrangement oracle: exterior(P) meets neither interior nor boundary of the piece), MonotonicPolygons::intersects(c) == (c not exterior to P) for every lattice and half-lattice coordinate of the envelope +-1, stitched multipolygon has the same exact area and the same location function on every half-lattice point. Non-trivial = polygon with >= 4 segments; distinct by digest.",
        "assumptions": [DOMAIN, "Delaunay strata use lattice scales >= 1 (default snap_radius is an absolute 1e-4 by documented design)"],
        "min_nontrivial": {"quick": 1000, "thorough": 10000},
    },
    "C04": {
        "budget": {"quick": 8000, "thorough": 150000},
        "rule": "three case kinds: (pair, 6 of 8) two valid lattice (multi)polygons with holes, partner derived from the first operand (identical, translated, edge-sharing, nested, touching, empty), either ring winding, one case in five with repeated vertices incl. a repeated closing vertex; all four operations through the named method, boolean_op and the Polygon impl; membership of every quarter-lattice sample point of the envelope (exactly classified by the operands' location functions; points on a boundary skipped) in the result by an even-odd crossing test on the result rings; the three area identities within 4·pos_tol·perimeter (pos_tol = extent·2^-25 + 4 ulp(M)); result rings closed, exterior ccw, holes cw. (unary_union, 1 of 8) 2-12 consistently wound, possibly overlapping polygons: region and area equal to the fold of pairwise unions and to the exact union of the location functions. (clip, 1 of 8) a simple (multi) line string through vertices / points on edges of the polygon: inside/outside lengths against the exact split of the line at the polygon boundary (boundary-running parts may go to either side), inside+outside = total, every returned piece on the required side within the snap allowance. Non-trivial = both operands non-empty / line meets the polygon; distinct by digest.",
        "assumptions": [DOMAIN, "the sampling oracle needs sample points farther from every input boundary than the snapping tolerance: quarter-lattice points are at least 1/(4·edge length) lattice units away, the tolerance is below 2^-12 lattice units for every generated offset/scale"],
        "min_nontrivial": {"quick": 1000, "thorough": 10000},
    },
    "C12": {
        "budget": {"quick": 25000, "thorough": 600000},
        "rule": "per case one generated geometry of any type (half of them polygons with holes / tangent holes / multipolygons, 1 in 10 a sliver of height 1 and width up to 2^20) with lattice offset/scale: interior_point must be None exactly for empty input, otherwise a point whose exact location (f64 result converted exactly to a rational) is not the exterior, and the interior for areal input, and must not panic; closest_point to three query points (vertices, lattice points on edges, neighbours, outside points): Intersection iff the exact location of the query is not exterior (and then equal to the query within 8u), otherwise a point whose exact distance to g is <= 16u·(M+extent+d) and whose distance to the query equals the exact minimum distance within the same tolerance; Indeterminate only for empty input; enum and concrete type agree. One case in four feeds 2-7 lattice segments to sweep::Intersections and compares with brute-force line_intersection (observe-only: counted, not judged). Non-trivial = geometry with linework; distinct by (geometry, query) digest.",
        "assumptions": [DOMAIN, "for lineal input interior_point is only required to intersect the geometry (the implementation documents that it returns a vertex); 'strictly inside' is judged for areal input as the statement's 'in particular' clause says"],
        "min_nontrivial": {"quick": 1000, "thorough": 10000},
    },
}
