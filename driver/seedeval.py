#!/usr/bin/env python3
"""Confirm an independently written breaking change and run the checks against it.

usage: seedeval.py <src_dir> <name> [--props C01,C02,...] [--tag m17] [--skip-verify]
  src_dir   directory with patch.diff, demo_test.rs, meta.json (as delivered by a seeding agent)
  name      target directory name under /verif/seeded/ (e.g. C13-a)

1. (verify) in the scratch worktree /tmp/geo-<tag> (checked out at /repo's HEAD): apply the patch, run the
   library's own unit tests (`cargo test -p geo --lib`, plus geo-types if touched): only the 3 known
   geodesic failures allowed; run the demonstration as an integration test: must FAIL; revert the patch;
   demonstration must PASS.
2. copy patch.diff / demo_test.rs / meta.json to /verif/seeded/<name>/.
3. (detect) rebuild the scratch harness /tmp/gvh-<tag> against the patched scratch tree and run the quick
   workload (16 shards, quick budget, monitor shards only) of the listed properties (default: all built);
   record per property whether a non-known violation signature fired.
The run against /repo itself (apply, ./check, checkout) is done by `seedeval.py --repo <name>`.
"""
import json, os, subprocess, sys, shutil, re, time

sys.path.insert(0, "/verif/driver")
from props import PROPS

KNOWN_FAIL = {"test_non_standard_geoid", "points_along_line_with_endpoints", "points_along_line_without_endpoints"}
ENV = dict(os.environ, CARGO_NET_OFFLINE="true", CARGO_TERM_COLOR="never")


def sh(cmd, cwd=None, env=None, timeout=3600):
    p = subprocess.run(cmd, cwd=cwd, env=env or ENV, stdout=subprocess.PIPE, stderr=subprocess.STDOUT, text=True, timeout=timeout)
    return p.returncode, p.stdout


def known_ids():
    try:
        return {f["id"] for f in json.load(open("/verif/known_findings.json"))["findings"] if f["status"] == "open"}
    except Exception:
        return set()


def unit_tests(geo, pkgs):
    res = {}
    for pkg in pkgs:
        rc, out = sh(["cargo", "test", "-p", pkg, "--lib", "--offline"], cwd=geo)
        failed = set(re.findall(r"^test (\S+) \.\.\. FAILED", out, re.M))
        unexpected = [f for f in failed if f.split("::")[-1] not in KNOWN_FAIL]
        summary = [l for l in out.splitlines() if l.startswith("test result:")]
        compiled = "error: could not compile" not in out and "error[" not in out
        res[pkg] = {"summary": summary[-1] if summary else out[-300:], "unexpected_failures": unexpected, "compiled": compiled}
    return res


def demo(geo, name):
    rc, out = sh(["cargo", "test", "-p", "geo", "--test", name, "--offline"], cwd=geo)
    summary = [l for l in out.splitlines() if l.startswith("test result:")]
    return rc, (summary[-1] if summary else out[-400:])


def detect(gvh, props, seed=1):
    known = known_ids()
    out = {}
    for pid in props:
        cfg = PROPS[pid]
        if not cfg.get("budget"):
            continue
        nsh = cfg.get("shards", 16)
        rundir = f"/tmp/seedeval_run/{pid}"
        shutil.rmtree(rundir, ignore_errors=True)
        os.makedirs(rundir)
        procs = []
        t = time.time()
        for i in range(nsh):
            o = f"{rundir}/s{i}.json"
            procs.append((o, subprocess.Popen([gvh, "run", pid, "--seed", str(seed), "--shard", str(i), "--nshards", str(nsh), "--tier", "quick", "--budget", str(cfg["budget"]["quick"]), "--out", o], stdout=subprocess.DEVNULL, stderr=subprocess.DEVNULL, cwd=rundir)))
        sigs, crashed = {}, 0
        for o, p in procs:
            try:
                p.wait(timeout=1800)
            except subprocess.TimeoutExpired:
                p.kill()
                crashed += 1
                continue
            if p.returncode != 0 or not os.path.exists(o):
                crashed += 1
                continue
            d = json.load(open(o))
            for s, c in d["viol_sigs"].items():
                if s.split("|")[-1] in known:
                    continue
                sigs[s] = sigs.get(s, 0) + c
        top = sorted(sigs.items(), key=lambda x: -x[1])[:4]
        out[pid] = {"caught": bool(sigs) or crashed > 0, "violations": sum(sigs.values()), "crashed_shards": crashed, "top_signatures": top, "wall_s": round(time.time() - t, 1)}
        print(f"   {pid}: {'CAUGHT' if out[pid]['caught'] else 'missed'} {sum(sigs.values())} {top[:2]} crashed={crashed}", flush=True)
    return out


def main():
    args = sys.argv[1:]
    src, name = args[0], args[1]
    tag = args[args.index("--tag") + 1] if "--tag" in args else "m17"
    props = args[args.index("--props") + 1].split(",") if "--props" in args else sorted(PROPS.keys())
    geo, gvh_dir = f"/tmp/geo-{tag}", f"/tmp/gvh-{tag}"
    dst = f"/verif/seeded/{name}"
    patch = os.path.join(src, "patch.diff")
    meta = json.load(open(os.path.join(src, "meta.json")))
    head = subprocess.run(["git", "-C", "/repo", "rev-parse", "HEAD"], stdout=subprocess.PIPE, text=True).stdout.strip()
    sh(["git", "checkout", "-q", "--detach", head], cwd=geo)
    sh(["git", "checkout", "--", "."], cwd=geo)
    tname = "seeded_" + name.lower().replace("-", "_")
    os.makedirs(os.path.join(geo, "geo", "tests"), exist_ok=True)
    shutil.copy(os.path.join(src, "demo_test.rs"), os.path.join(geo, "geo", "tests", tname + ".rs"))
    verified = {}
    rc, out = sh(["git", "apply", "--check", patch], cwd=geo)
    if rc != 0:
        print("patch does not apply:", out)
        return 2
    if "--skip-verify" not in args:
        rc0, d0 = demo(geo, tname)
        verified["demo_without_patch"] = {"rc": rc0, "summary": d0}
        sh(["git", "apply", patch], cwd=geo)
        pkgs = ["geo"] + (["geo-types"] if "geo-types/" in open(patch).read() else [])
        verified["unit_tests_with_patch"] = unit_tests(geo, pkgs)
        rc1, d1 = demo(geo, tname)
        verified["demo_with_patch"] = {"rc": rc1, "summary": d1}
        ok = rc0 == 0 and rc1 != 0 and all(v["compiled"] and not v["unexpected_failures"] for v in verified["unit_tests_with_patch"].values())
        verified["confirmed"] = ok
        print(f"[{name}] verify: demo without patch rc={rc0} ({d0}); with patch rc={rc1} ({d1}); unit tests {verified['unit_tests_with_patch']}; confirmed={ok}", flush=True)
        if not ok:
            sh(["git", "checkout", "--", "."], cwd=geo)
            os.remove(os.path.join(geo, "geo", "tests", tname + ".rs"))
            json.dump({"name": name, "verified": verified}, open(f"/tmp/seedeval_{name}_rejected.json", "w"), indent=1)
            return 1
    else:
        sh(["git", "apply", patch], cwd=geo)
    os.makedirs(dst, exist_ok=True)
    shutil.copy(patch, os.path.join(dst, "patch.diff"))
    shutil.copy(os.path.join(src, "demo_test.rs"), os.path.join(dst, "demo_test.rs"))
    # detection on the patched scratch tree
    subprocess.run(["rsync", "-a", "--exclude", "target", "--exclude", "Cargo.toml", "--exclude", ".cargo", "/verif/harness/", gvh_dir + "/"], check=True)
    toml = open("/verif/harness/Cargo.toml").read().replace("/repo/", geo + "/")
    open(os.path.join(gvh_dir, "Cargo.toml"), "w").write(toml)
    rc, out = sh(["cargo", "build", "--release", "--offline"], cwd=gvh_dir, env=dict(ENV, RUSTFLAGS="--cfg georust_geo_verif"))
    if rc != 0:
        print("harness does not build against the patched tree (or /verif/harness is being edited): try again later\n", out[-1500:])
        sh(["git", "checkout", "--", "."], cwd=geo)
        os.remove(os.path.join(geo, "geo", "tests", tname + ".rs"))
        return 3
    else:
        det = detect(os.path.join(gvh_dir, "target", "release", "gvh"), props)
    sh(["git", "checkout", "--", "."], cwd=geo)
    os.remove(os.path.join(geo, "geo", "tests", tname + ".rs"))
    meta_out = dict(meta)
    try:  # keep our own annotations of an earlier evaluation
        prev = json.load(open(os.path.join(dst, "meta.json")))
        for key in ("strengthened", "detection_repo_quick", "first_evaluation"):
            if key in prev:
                meta_out[key] = prev[key]
        if "detection_scratch_quick" in prev and "first_evaluation" not in prev:
            meta_out["first_evaluation"] = {"repo_head": prev.get("repo_head_when_evaluated"), "detection_scratch_quick": prev["detection_scratch_quick"]}
    except Exception:
        pass
    meta_out["repo_head_when_evaluated"] = head
    if verified:
        meta_out["confirmed_by_us"] = verified
    meta_out["detection_scratch_quick"] = det
    meta_out["what_we_ran"] = f"driver/seedeval.py: scratch worktree {geo} at {head[:8]}: cargo test -p geo --lib with the patch, the demonstration as integration test with and without the patch; harness rebuilt against the patched tree, quick workload (16 shards) of {', '.join(props)}"
    json.dump(meta_out, open(os.path.join(dst, "meta.json"), "w"), indent=1)
    target = meta.get("property", name.split("-")[0])
    hit = [p for p, v in det.items() if isinstance(v, dict) and v.get("caught")] if isinstance(det, dict) else []
    print(f"[{name}] target {target}: {'CAUGHT by ' + ','.join(hit) if hit else 'MISSED by all'}", flush=True)
    return 0


if __name__ == "__main__":
    sys.exit(main())
