#!/usr/bin/env python3
"""Run the registered quick check of the target property against each kept seeded change applied to /repo itself
(git -C /repo apply; ./check; git -C /repo checkout -- .). usage: seedrepo.py [name ...]   (default: all)"""
import json, glob, os, subprocess, sys, time
names = sys.argv[1:] or [os.path.basename(d.rstrip("/")) for d in sorted(glob.glob("/verif/seeded/*/"))]
st = subprocess.run(["git", "-C", "/repo", "status", "--porcelain", "--untracked-files=no"], stdout=subprocess.PIPE, text=True).stdout
st = [l for l in st.splitlines() if "jts-test-runner/resources/testxml" not in l]
if st:
    print("refusing: /repo has local changes", st)
    sys.exit(2)
for name in names:
    d = f"/verif/seeded/{name}"
    m = json.load(open(d + "/meta.json"))
    pid = m.get("property", name.split("-")[0])
    extra = m.get("also_check", [])
    a = subprocess.run(["git", "-C", "/repo", "apply", d + "/patch.diff"], stdout=subprocess.PIPE, stderr=subprocess.STDOUT, text=True)
    if a.returncode != 0:
        print(name, "patch does not apply to /repo HEAD:", a.stdout[-300:])
        continue
    res = {}
    try:
        for p in [pid] + [e for e in extra if e != pid]:
            t = time.time()
            r = subprocess.run(["./check", p, "--tier", "quick"], cwd="/verif", stdout=subprocess.PIPE, stderr=subprocess.STDOUT, text=True)
            viol = [l for l in r.stdout.splitlines() if l.startswith("VIOLATION")]
            sigs = [l.strip() for l in r.stdout.splitlines() if l.startswith("  [")][:4]
            res[p] = {"exit": r.returncode, "caught": r.returncode == 1 and bool(viol), "violation_lines": len(viol), "first_signatures": sigs, "wall_s": round(time.time() - t, 1)}
            print(name, p, "exit", r.returncode, "VIOLATION lines", len(viol), sigs[:1], flush=True)
    finally:
        subprocess.run(["git", "-C", "/repo", "checkout", "--", "."], check=True)
    m["detection_repo_quick"] = res
    m["what_we_ran_on_repo"] = "git -C /repo apply patch.diff; ./check <property> --tier quick (exit 1 + VIOLATION line = caught); git -C /repo checkout -- ."
    json.dump(m, open(d + "/meta.json", "w"), indent=1)
# leave the harness built against the clean tree again
subprocess.run(["./check", "--setup"], cwd="/verif", stdout=subprocess.DEVNULL)
