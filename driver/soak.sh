#!/bin/bash
# usage: soak.sh <tier> <seed...>   runs every registered check at the given seeds; prints one line per run
tier=$1; shift
cd "$(dirname "$0")/.."
for seed in "$@"; do
  for p in $(python3 -c "import json;print(' '.join(c['property_id'] for c in json.load(open('MANIFEST.json'))['checks']))"); do
    out=$(VERIF_SEED=$seed ./check $p --tier $tier 2>&1); rc=$?
    echo "seed=$seed $p rc=$rc $(echo "$out" | grep -E "^$p |VIOLATION|INCONCLUSIVE" | tr '\n' ' ' | cut -c1-400)"
  done
done
