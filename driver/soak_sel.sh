#!/bin/bash
# usage: soak_sel.sh <tier> <seed> <property...>   like soak.sh, for a selection of checks
tier=$1; seed=$2; shift 2
cd "$(dirname "$0")/.."
for p in "$@"; do
  out=$(VERIF_SEED=$seed ./check $p --tier $tier 2>&1); rc=$?
  echo "seed=$seed $p rc=$rc $(echo "$out" | grep -E "^$p |VIOLATION|INCONCLUSIVE|Traceback" | tr '\n' ' ' | cut -c1-400)"
done
